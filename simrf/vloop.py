"""VLoop: a virtual-time asyncio event loop whose every scheduling choice is decided by
the simulator.

* `time()` is a virtual clock; when nothing is ready the clock jumps to the next timer.
* fd readiness is decided by the simulator (see rf.FakeSerial), never by the kernel.
* equal-deadline timers are ordered by a `tie` decision, late servicing by `stall`
  decisions (both taken from the Plan; absent plan => FIFO / no stall).
* `call_soon` order is never permuted (asyncio guarantees FIFO).
* a run with nothing ready and no timers while the main future is pending is a HANG.
"""
from __future__ import annotations

import asyncio
import heapq
from asyncio import base_events, events

T0 = 1000.0  # virtual loop epoch: every run starts here


class SimHang(Exception):
    """Nothing runnable, no timers, main task not finished."""


class SimWedge(BaseException):
    """A blocking acquire() of a threading.Lock that is already held: on the library's single
    thread this blocks the whole event loop for ever."""


WEDGE: list = [None]  # set by world.SimLock, checked after every handle


class SimStepCap(Exception):
    """The per-run step cap was exceeded (harness bound, not a property verdict)."""


class VLoop(base_events.BaseEventLoop):
    def __init__(self, plan=None, step_cap: int = 5_000_000) -> None:
        super().__init__()
        self._vtime = T0
        self._readers: dict = {}
        self._writers: dict = {}
        self._selector = None
        self.plan = plan
        self.steps = 0
        self.iterations = 0
        self.step_cap = step_cap
        self.stalls: list[tuple[float, float]] = []  # (at, dur) materialised from plan ops
        self.stall_count = 0
        self.tie_count = 0
        self.tie_seq = 0
        self.on_add_reader = None
        self.iter_cost = 0.0  # virtual seconds every busy loop iteration takes (a slow / loaded host)
        self.on_tick = None  # optional invariant monitor, called once per iteration
        self._vheap: list = []
        self._vseq = 0

    # -- clock -------------------------------------------------------------------
    def time(self) -> float:
        return self._vtime

    # -- selector-less I/O -------------------------------------------------------
    def _process_events(self, event_list) -> None:  # pragma: no cover
        pass

    def _write_to_self(self) -> None:
        pass

    def add_reader(self, fd, cb, *args):
        self._readers[fd] = (cb, args)
        if self.on_add_reader is not None:  # a kernel reports pending bytes as soon as somebody listens (again)
            self.on_add_reader(fd)

    def remove_reader(self, fd):
        return self._readers.pop(fd, None) is not None

    def add_writer(self, fd, cb, *args):
        self._writers[fd] = (cb, args)

    def remove_writer(self, fd):
        return self._writers.pop(fd, None) is not None

    def fire_reader(self, fd) -> bool:
        ent = self._readers.get(fd)
        if ent is None:
            return False
        ent[0](*ent[1])
        return True

    # -- the scheduler ------------------------------------------------------------
    def add_stall(self, at: float, dur: float) -> None:
        """The loop will be 'busy' (services nothing) from virtual `at` for `dur` s."""
        self.stalls.append((at, dur))
        self.stalls.sort()

    def call_at(self, when, callback, *args, context=None):
        """Own timer heap ordered by (deadline, creation sequence): a total, deterministic order."""
        if when is None:
            raise TypeError("when cannot be None")
        self._check_closed()
        timer = events.TimerHandle(when, callback, args, self, context)
        self._vseq += 1
        heapq.heappush(self._vheap, (when, self._vseq, timer))
        timer._scheduled = True
        return timer

    def pending_timers(self) -> int:
        return sum(1 for (_, _, h) in self._vheap if not h._cancelled)

    def _run_once(self) -> None:
        sched = self._vheap
        while sched and sched[0][2]._cancelled:
            heapq.heappop(sched)[2]._scheduled = False

        if not self._ready:
            if not sched:
                raise SimHang("nothing ready and no timers")
            when = sched[0][0]
            if when > self._vtime:
                self._vtime = when
            # a stall: the loop wakes late, so several deadlines mature together
            while self.stalls and self.stalls[0][0] <= self._vtime:
                at, dur = self.stalls.pop(0)
                if at + dur > self._vtime:
                    self._vtime = at + dur
                    self.stall_count += 1

        end = self._vtime + self._clock_resolution
        due = []
        while sched and sched[0][0] < end:
            h = heapq.heappop(sched)[2]
            h._scheduled = False
            if not h._cancelled:
                due.append(h)
        if len(due) > 1 and self.plan is not None:
            due = self._order_due(due)
        self._ready.extend(due)

        self.iterations += 1
        n = len(self._ready)
        for _ in range(n):
            h = self._ready.popleft()
            if h._cancelled:
                continue
            self.steps += 1
            h._run()
            if WEDGE[0] is not None:
                raise SimWedge(WEDGE[0])
        h = None
        if self.iter_cost and n:
            self._vtime += self.iter_cost
        if self.steps > self.step_cap:
            raise SimStepCap(f"step cap {self.step_cap} exceeded at t={self._vtime}")
        if self.on_tick is not None:
            self.on_tick()

    def _order_due(self, due):
        """Deadline order, creation order among equals -- unless a `tie` decision reverses a group."""
        out, i = [], 0
        while i < len(due):
            j = i + 1
            while j < len(due) and due[j]._when == due[i]._when:
                j += 1
            grp = due[i:j]
            if len(grp) > 1:
                self.tie_seq += 1
                rate = self.plan.knob("tie_rate", 0.0)
                if rate > 0.0 or self.plan.materialised:
                    rev = self.plan.decide(f"tie#{self.tie_seq}", lambda r: r.random() < rate, False)
                    if rev:
                        grp.reverse()
                        self.tie_count += 1
            out.extend(grp)
            i = j
        return out


def run_main(loop: VLoop, coro, *, debug: bool = False):
    """Run `coro` to completion on `loop`; translate a hang into SimHang with a task dump."""
    asyncio.set_event_loop(loop)
    task = loop.create_task(coro, name="sim-main")
    try:
        loop.run_until_complete(task)
        return task.result()
    except SimHang as err:
        pend = [t for t in asyncio.all_tasks(loop) if not t.done()]
        desc = []
        for t in sorted(pend, key=lambda t: t.get_name()):
            co = t.get_coro()
            desc.append(f"{t.get_name()}:{getattr(co, '__qualname__', co)}")
        raise SimHang("; ".join(desc)) from err
