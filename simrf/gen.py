"""Traffic generators: the corpus, a regex sampler for the per-code payload schemas, frame
builders over the three legal address-set shapes, and frame corrupters.  All draw from a
`random.Random` handed in by the caller (which derives it from the plan)."""
from __future__ import annotations

import os
import re
import re._parser as sre  # type: ignore[import-not-found]

HEX = "0123456789ABCDEF"
CORPUS_FILE = os.path.join(os.path.dirname(os.path.abspath(__file__)), "corpus", "all_logs.txt")

_corpus_cache = None
LINE_RE = re.compile(r"^(\d{4}-\d\d-\d\d[T ]\d\d:\d\d:\d\d\.\d{6}) (.*)$")


def corpus():
    """-> dict: files {relpath: [(dtm_str, rest_of_line)]}, frames [(dtm_str, 'RSSI frame...')]"""
    global _corpus_cache
    if _corpus_cache is not None:
        return _corpus_cache
    files: dict[str, list] = {}
    cur = None
    for raw in open(CORPUS_FILE, errors="replace"):
        raw = raw.rstrip("\n")
        if raw.startswith("## "):
            cur = files.setdefault(raw[3:], [])
            continue
        m = LINE_RE.match(raw)
        if m and cur is not None:
            cur.append((m.group(1), m.group(2)))
    frames = []
    for rel in sorted(files):
        for dtm, rest in files[rel]:
            body = rest.split("#")[0].split("<")[0].rstrip()
            if re.match(r"^(\.\.\.|\d{3}) ( I|RQ|RP| W) ", body):
                frames.append((dtm, body))
    _corpus_cache = {"files": files, "frames": frames}
    return _corpus_cache


# ---------------------------------------------------------------------------------------
# regex sampler
# ---------------------------------------------------------------------------------------

class _Unsupported(Exception):
    pass


def _sample(node, r, out: list, depth=0) -> None:
    for op, av in node:
        op = str(op)
        if op == "LITERAL":
            out.append(chr(av))
        elif op == "NOT_LITERAL":
            c = r.choice(HEX)
            while ord(c) == av:
                c = r.choice(HEX)
            out.append(c)
        elif op == "ANY":
            out.append(r.choice(HEX))
        elif op == "IN":
            out.append(_sample_in(av, r))
        elif op in ("MAX_REPEAT", "MIN_REPEAT"):
            lo, hi, sub = av
            hi = lo + 6 if hi == sre.MAXREPEAT else hi
            if hi > lo and r.random() < 0.3:
                n = r.choice([lo, hi])
            else:
                n = r.randint(lo, min(hi, lo + 8) if hi > lo + 8 and r.random() < 0.7 else hi)
            for _ in range(n):
                _sample(sub, r, out, depth + 1)
        elif op == "SUBPATTERN":
            _sample(av[3], r, out, depth + 1)
        elif op == "BRANCH":
            _sample(r.choice(av[1]), r, out, depth + 1)
        elif op in ("AT",):
            pass
        elif op in ("ASSERT", "ASSERT_NOT"):
            pass  # validated afterwards by matching
        elif op == "CATEGORY":
            out.append(r.choice("0123456789") if "DIGIT" in str(av) else r.choice(HEX))
        else:
            raise _Unsupported(op)


def _sample_in(items, r) -> str:
    neg = False
    pool = []
    for op, av in items:
        op = str(op)
        if op == "NEGATE":
            neg = True
        elif op == "LITERAL":
            pool.append(chr(av))
        elif op == "RANGE":
            pool.extend(chr(c) for c in range(av[0], av[1] + 1))
        elif op == "CATEGORY":
            pool.extend("0123456789" if "DIGIT" in str(av) else HEX)
    if neg:
        pool = [c for c in HEX if c not in pool] or ["0"]
    return r.choice(pool)


_parsed: dict[str, object] = {}


def sample_regex(regex: str, r, tries: int = 12) -> str | None:
    """A string matching `regex` (anchored payload schemas), or None if we cannot make one."""
    try:
        tree = _parsed.get(regex) or _parsed.setdefault(regex, sre.parse(regex))
    except Exception:
        return None
    cre = re.compile(regex)
    for _ in range(tries):
        out: list[str] = []
        try:
            _sample(tree, r, out)
        except _Unsupported:
            return None
        s = "".join(out)
        if cre.match(s) and len(s) % 2 == 0 and 2 <= len(s) <= 96:
            return s
    return None


# ---------------------------------------------------------------------------------------
# frames
# ---------------------------------------------------------------------------------------

DEV_TYPES = ["01", "02", "03", "04", "07", "08", "10", "12", "13", "18", "20", "22", "23", "29", "30", "31", "32",
             "34", "37", "39", "42", "49", "59", "63", "00", "21"]


def dev_id(r, t: str | None = None) -> str:
    t = t or r.choice(DEV_TYPES)
    return f"{t}:{r.choice([r.randrange(1, 262143), 145038, 1, 262142]):06d}"


def addr_set(r, src: str | None = None, dst: str | None = None) -> str:
    """One of the three legal shapes: (src, dst, --), (src, --, src) i.e. broadcast, (--, --, src)."""
    src = src or dev_id(r)
    shape = r.random()
    if dst is not None or shape < 0.45:
        return f"{src} {dst or dev_id(r)} --:------"
    if shape < 0.9:
        return f"{src} --:------ {src}"
    return f"--:------ --:------ {src}"


_shapes: dict[str, list] = {}


def seen_shapes() -> dict[str, list]:
    """code -> [(verb, type0, type1, type2)] as seen in the corpus: which kinds of device really send what."""
    if not _shapes:
        for _dtm, body in corpus()["frames"]:
            code = body[41:45]
            sh = (body[4:6], body[11:13], body[21:23], body[31:33])
            lst = _shapes.setdefault(code, [])
            if sh not in lst:
                lst.append(sh)
    return _shapes


def schema_frame(r, codes_schema: dict) -> str | None:
    """A frame whose payload is sampled from the library's own per-verb/code regex."""
    code = r.choice(sorted(codes_schema))
    verbs = [v for v in (" I", "RQ", "RP", " W") if v in codes_schema[code]]
    if not verbs:
        return None
    verb = r.choice(verbs)
    payload = sample_regex(codes_schema[code][verb], r)
    if payload is None:
        return None
    shapes = [sh for sh in seen_shapes().get(code, []) if sh[0] == verb]
    if shapes and r.random() < 0.7:  # from the kind of device that really sends this verb/code
        _v, t0, t1, t2 = r.choice(shapes)
        ids: dict[str, str] = {}

        def mk(t):
            if t == "--":
                return "--:------"
            return ids.setdefault(t, dev_id(r, t))

        a0, a1, a2 = mk(t0), mk(t1), mk(t2)
        seqn_ = "---" if r.random() < 0.8 else f"{r.choice([0, 0, 1, 255, 100, r.randrange(256)]):03d}"
        return f"{verb} {seqn_} {a0} {a1} {a2} {code} {len(payload) // 2:03d} {payload}"
    seqn = "---" if r.random() < 0.8 else f"{r.choice([0, 0, 1, 255, 100, r.randrange(256)]):03d}"
    if verb in ("RQ", " W"):
        addrs = f"{dev_id(r, '18')} {dev_id(r)} --:------"
    elif verb == "RP":
        addrs = f"{dev_id(r)} {dev_id(r, '18')} --:------"
    else:
        addrs = addr_set(r)
    return f"{verb} {seqn} {addrs} {code} {len(payload) // 2:03d} {payload}"


def rssi(r) -> str:
    return r.choice(["000", "045", f"{r.randrange(30, 100):03d}", "..."]) if r.random() < 0.9 else "---"


# ---------------------------------------------------------------------------------------
# corruption: 1-3 edits that keep the line "within a few edits of a valid frame"
# ---------------------------------------------------------------------------------------

EDITS = ["codeflip", "shorten", "lengthen", "addrset", "addrblank", "hexflip", "addrflip", "lenfield", "truncate", "dropspace", "dblspace", "rssigarbage", "nonascii",
         "blank", "comment", "errnote", "bang", "banner", "extend", "lower", "verb", "crcr", "nul", "hint"]


def corrupt(line: str, r, n_edits: int | None = None) -> tuple[str, list[str]]:
    """line = 'RSSI frame'. Returns (new line as str (may contain non-ascii via latin-1), edits applied)."""
    kinds = []
    for _ in range(n_edits or r.choice([1, 1, 1, 2, 3])):
        k = r.choice(EDITS)
        kinds.append(k)
        s = line
        if k in ("shorten", "lengthen") and len(s) > 52 and s[46:49].isdigit():
            # a structurally consistent frame whose payload is shorter/longer than its code expects
            pl = s[50:].split(" ")[0]
            rest = s[50 + len(pl):]
            if k == "shorten":
                n = r.choice([1, 1, 2, max(1, len(pl) // 2 - 1)])
                pl = pl[: 2 * n]
            else:
                pl = pl + r.choice(["00", "FF", pl[:2], "7FFF"])
            if 0 < len(pl) <= 96:
                s = f"{s[:46]}{len(pl) // 2:03d} {pl}{rest}"
        elif k == "codeflip" and len(s) > 46 and s[40] == " " and s[45] == " ":
            # one hex digit of the code: a structurally valid frame of a code nobody defined
            i = r.randrange(41, 45)
            s = s[:i] + r.choice([c for c in HEX if c != s[i]]) + s[i + 1:]
        elif k == "addrset" and len(s) > 40:
            a = [s[11:20], s[21:30], s[31:40]]
            x = r.choice([a[0], a[1], a[2], "01:145038"])
            sets = [("--:------",) * 3, (x, x, x), ("--:------", x, "--:------"), (x, "--:------", "--:------"),
                    ("--:------", "--:------", "--:------"), (a[2], a[1], a[0]), ("63:262142", "--:------", x),
                    ("--:------", x, x), (x, "63:262142", "--:------")]
            s = s[:11] + " ".join(r.choice(sets)) + s[40:]
        elif k == "addrblank" and len(s) > 40:
            i = r.choice([11, 21, 31])
            s = s[:i] + "--:------" + s[i + 9:]
        elif k == "hexflip" and len(s) > 50:
            i = r.randrange(50, len(s))
            s = s[:i] + r.choice("0123456789ABCDEFGZ ") + s[i + 1:]
        elif k == "addrflip" and len(s) > 40:
            i = r.randrange(11, 40)
            s = s[:i] + r.choice("0123456789:-X") + s[i + 1:]
        elif k == "lenfield" and len(s) > 49:
            s = s[:46] + f"{r.choice([0, 1, 2, 3, 47, 48, 49, 255]):03d}" + s[49:]
        elif k == "truncate":
            s = s[: r.randrange(0, len(s) + 1)]
        elif k == "dropspace" and " " in s:
            idx = [i for i, c in enumerate(s) if c == " "]
            i = r.choice(idx)
            s = s[:i] + s[i + 1:]
        elif k == "dblspace" and " " in s:
            idx = [i for i, c in enumerate(s) if c == " "]
            i = r.choice(idx)
            s = s[:i] + " " + s[i:]
        elif k == "rssigarbage":
            s = r.choice(["", "0", "0000", "-45", "???", "\x00\x00\x00"]) + s[3:]
        elif k == "nonascii":
            i = r.randrange(0, len(s) + 1)
            s = s[:i] + r.choice(["\xff", "\x80\xfe", "\x1b[0m", "\xc3\x28"]) + s[i:]
        elif k == "blank":
            s = r.choice(["", " ", "   ", "\t"])
        elif k == "comment":
            s = s + r.choice([" # a comment", " # evofw3 0.7.1", "#", " # \x07bell"])
        elif k == "errnote":
            s = s + r.choice([" * Checksum error", " * Collision", " *", " * Manchester encoding error"])
        elif k == "bang":
            s = r.choice(["!V", "!C 01 02", "!", "!F 0D"])
        elif k == "banner":
            s = r.choice(["# evofw3 0.7.1", "# evofw3 0.7.1\x00", "evofw3", "\x00", "#"])
        elif k == "extend":
            s = s + r.choice(["00", "0", " 00", "ZZ", "0" * 100])
        elif k == "lower":
            s = s.lower()
        elif k == "verb" and len(s) > 6:
            s = s[:4] + r.choice(["XX", "  ", "rq", "RQ", " I", "RP", " W", "I ", "W "]) + s[6:]
        elif k == "crcr":
            s = s + "\r"
        elif k == "nul":
            i = r.randrange(0, len(s) + 1)
            s = s[:i] + "\x00" + s[i:]
        elif k == "hint":
            s = s + r.choice([" < a parser hint", " < {'x': 1} # and a comment", " <"])
        line = s
    return line, kinds


EXTREME = ["00", "01", "64", "65", "C8", "C9", "7F", "80", "FE", "FF", "EF", "F0", "7E", "0B", "0C", "10"]


def mutate_field(body: str, r, codes_schema: dict) -> str | None:
    """A real frame with one (sometimes two) payload bytes replaced by an extreme or random value, kept only
    if the library's own per-verb/code regex still accepts the payload: unusual-but-legal input."""
    code, verb = body[41:45], body[4:6]
    pl = body[50:].split(" ")[0]
    rx = (codes_schema.get(code) or {}).get(verb)
    if not pl or len(pl) % 2:
        return None
    cre = re.compile(rx) if rx else None
    for _ in range(6):
        q = pl
        for _n in range(r.choice([1, 1, 1, 2])):
            i = 2 * r.randrange(len(q) // 2)
            q = q[:i] + (r.choice(EXTREME) if r.random() < 0.7 else f"{r.randrange(256):02X}") + q[i + 2:]
        if q != pl and (cre is None or cre.match(q)):
            return body[:50] + q + body[50 + len(pl):]
    return None
