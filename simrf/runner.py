"""Run plans: one run, a batch over a fork pool, replay, shrink, evidence.

Exit codes of a check: 0 held (possibly KNOWN-FINDING lines); 1 VIOLATION (replayable);
3 HARNESS-ERROR (worker death, nondeterministic replay, step cap) -- never conflated.
"""
from __future__ import annotations

import asyncio
import faulthandler
import gc
import hashlib
import importlib
import json
import multiprocessing
import os
import subprocess
import sys
import time
import traceback
from concurrent.futures import ProcessPoolExecutor
from concurrent.futures.process import BrokenProcessPool

from . import clock
from .plan import Plan
from .vloop import SimHang, SimStepCap, SimWedge, VLoop

VERIF = os.path.dirname(os.path.dirname(os.path.abspath(__file__)))
NPROC = int(os.environ.get("SIMRF_WORKERS", "16"))


class Ctx:
    """Per-run context handed to an engine."""

    def __init__(self, loop: VLoop, plan: Plan) -> None:
        from . import rf

        self.loop = loop
        self.plan = plan
        self.hub = rf.Hub(loop, plan)
        self.loop_excs: list[dict] = []
        self.gc_reports: list[str] = []
        self.events: list = []
        self.violations: list[dict] = []
        self.probes: dict[str, int] = {}
        self.abstract: list[str] = []
        self.nontrivial = False
        self.sample = None
        self.tmpdirs: list[str] = []

    def t(self) -> float:
        return round(self.loop.time() - 1000.0, 6)

    def ev(self, *e) -> None:
        self.events.append((self.t(),) + e)

    def probe(self, name: str, n: int = 1) -> None:
        self.probes[name] = self.probes.get(name, 0) + n

    def ab(self, s: str) -> None:
        if len(self.abstract) < 400:
            self.abstract.append(s)

    def violate(self, prop: str, oracle: str, detail: str, text: str = "") -> None:
        sig = f"{prop}/{oracle}" + (f":{detail}" if detail else "")
        self.violations.append({"prop": prop, "oracle": oracle, "sig": sig,
                                "text": (text or detail)[:4000], "t": self.t()})
        self.ev("VIOLATION", sig)

    def tmpdir(self) -> str:
        import tempfile

        d = tempfile.mkdtemp(prefix="simrf-")
        self.tmpdirs.append(d)
        return d


def _exc_sig(e: BaseException) -> str:
    """type + innermost library function: stable across line-number churn."""
    tb = traceback.extract_tb(e.__traceback__) if e is not None else []
    fn = ""
    for fr in reversed(tb):
        if "/ramses_" in fr.filename:
            fn = f"{os.path.basename(fr.filename)[:-3]}.{fr.name}"
            break
    return f"{type(e).__name__}@{fn}" if fn else type(e).__name__


def exc_sig(e: BaseException) -> str:
    return _exc_sig(e)


def _handler(ctx: Ctx):
    def h(loop, context):
        e = context.get("exception")
        ent = {
            "t": ctx.t(),
            "message": str(context.get("message", ""))[:200],
            "type": type(e).__name__ if e is not None else "",
            "sig": _exc_sig(e) if e is not None else str(context.get("message", ""))[:60],
            "text": (str(e)[:300] if e is not None else ""),
        }
        ctx.loop_excs.append(ent)
        if "never retrieved" in ent["message"]:
            # reported from Task/Future.__del__, i.e. whenever the garbage collector happens to run: *that* instant depends on the
            # process's allocation history, not on the plan -- keep it out of the ordered event log (it is appended, sorted, at the end)
            ent["t"] = None
            ctx.gc_reports.append(ent["sig"])
        else:
            ctx.ev("LOOPEXC", ent["sig"])

    return h


def get_engine(name: str):
    return importlib.import_module(f"simrf.engines.{name}")


def execute(plan_dict: dict) -> dict:
    """Run one plan in this process. Deterministic given the plan and the code."""
    from . import world

    eng = get_engine(plan_dict["engine"])
    plan = Plan(plan_dict)
    if not plan.materialised and not plan_dict.get("generated"):
        eng.generate(plan)
        plan_dict["generated"] = True
    loop = VLoop(plan, step_cap=plan.knob("step_cap", 3_000_000))
    drift = plan.knob("drift", 0.0)
    world.reset_world(loop, drift=drift, seed=plan.seed * 1000003 + plan.run)
    ctx = Ctx(loop, plan)
    loop.set_exception_handler(_handler(ctx))
    asyncio.set_event_loop(loop)
    harness_error = None
    main = loop.create_task(eng.run(ctx), name="sim-main")
    try:
        loop.run_until_complete(main)
        main.result()
    except SimHang:
        pend = sorted(
            getattr(t.get_coro(), "__qualname__", "?")
            for t in asyncio.all_tasks(loop)
            if not t.done() and t is not main
        )
        where = _where(main)
        eng.on_hang(ctx, where, pend)
    except SimWedge as err:
        eng.on_wedge(ctx, str(err))
    except SimStepCap as err:
        harness_error = f"step-cap: {err}"
    except Exception as err:  # the engine itself failed: a harness bug, not a verdict
        harness_error = "engine-exception: " + "".join(traceback.format_exception(err))[-3000:]
    finally:
        _teardown(loop)
        for d in ctx.tmpdirs:
            import shutil

            shutil.rmtree(d, ignore_errors=True)
    for sig in sorted(ctx.gc_reports):
        ctx.events.append((-1.0, "LOOPEXC-GC", sig))
    dig = hashlib.sha256(repr(ctx.events).encode()).hexdigest()[:16]
    faults = dict(ctx.hub.fault_counts)
    if loop.stall_count:
        faults["stall"] = loop.stall_count
    if loop.tie_count:
        faults["tie"] = loop.tie_count
    return {
        "violations": ctx.violations,
        "digest": dig,
        "sim_s": round(loop.time() - 1000.0, 3),
        "steps": loop.steps,
        "faults": faults,
        "probes": ctx.probes,
        "abstract": hashlib.sha256("|".join(ctx.abstract).encode()).hexdigest()[:12],
        "nontrivial": ctx.nontrivial,
        "harness_error": harness_error,
        "plan": plan.freeze(),
        "sample": ctx.sample,
        "events_tail": [list(map(_js, e)) for e in ctx.events[-200:]],
    }


def _js(x):
    return x if isinstance(x, (int, float, str, bool, type(None))) else repr(x)[:200]


def _where(task) -> str:
    """Innermost awaiting frame of a pending task (function names only)."""
    try:
        co = task.get_coro()
        names = []
        while co is not None:
            names.append(getattr(co, "__qualname__", type(co).__name__))
            co = getattr(co, "cr_await", None) or getattr(co, "gi_yieldfrom", None)
            if not hasattr(co, "cr_frame") and not hasattr(co, "gi_frame"):
                break
        return ">".join(names[-3:])
    except Exception:  # pragma: no cover
        return "?"


def _teardown(loop: VLoop) -> None:
    try:
        loop.set_exception_handler(lambda l, c: None)
        for _ in range(3):
            pend = [t for t in asyncio.all_tasks(loop) if not t.done()]
            if not pend:
                break
            for t in pend:
                t.cancel()
            try:
                loop.run_until_complete(asyncio.gather(*pend, return_exceptions=True))
            except BaseException:
                break
        loop._ready.clear()
        loop._vheap.clear()
    finally:
        try:
            loop.close()
        except Exception:
            pass
        asyncio.set_event_loop(None)
        clock.set_loop(None)


# ------------------------------------------------------------------------------------
# batch
# ------------------------------------------------------------------------------------


def _worker(args):
    specs, seed, prop, budget_s, known_sigs = args
    faulthandler.dump_traceback_later(max(120, budget_s * 3 + 60), exit=True)
    t0 = clock.REAL_TIME()
    agg = new_agg()
    for (engine, scenario, run) in specs:
        if clock.REAL_TIME() - t0 > budget_s:
            agg["skipped"] += 1
            continue
        pd = Plan.new(engine, scenario, prop, seed, run).d
        w0 = clock.REAL_TIME()
        try:
            res = execute(pd)
        except BaseException as err:  # noqa
            agg["harness_errors"].append(f"{engine}/{scenario}/{run}: {type(err).__name__}: {err}")
            continue
        fold(agg, res, prop, clock.REAL_TIME() - w0)
    faulthandler.cancel_dump_traceback_later()
    return agg


def new_agg() -> dict:
    return {"runs": 0, "sim_s": 0.0, "steps": 0, "faults": {}, "probes": {}, "abstract": {},
            "nontrivial_abstract": {}, "violations": {}, "other_props": {}, "harness_errors": [],
            "samples": [], "skipped": 0, "wall": 0.0, "scen": {}}


def fold(agg: dict, res: dict, prop: str, wall: float) -> None:
    agg["runs"] += 1
    agg["wall"] += wall
    agg["sim_s"] += res["sim_s"]
    agg["steps"] += res["steps"]
    sc = res["plan"]["scenario"]
    agg["scen"][sc] = agg["scen"].get(sc, 0) + 1
    for k, v in res["faults"].items():
        agg["faults"][k] = agg["faults"].get(k, 0) + v
    for k, v in res["probes"].items():
        agg["probes"][k] = agg["probes"].get(k, 0) + v
    agg["abstract"][res["abstract"]] = 1
    if res["nontrivial"]:
        agg["nontrivial_abstract"][res["abstract"]] = 1
    if res["harness_error"]:
        agg["harness_errors"].append(
            f"{res['plan']['engine']}/{sc}/{res['plan']['run']}: {res['harness_error']}")
    if res["sample"] is not None and len(agg["samples"]) < 3:
        agg["samples"].append(res["sample"])
    for v in res["violations"]:
        if v["prop"] != prop:
            agg["other_props"][v["sig"]] = agg["other_props"].get(v["sig"], 0) + 1
            continue
        ent = agg["violations"].get(v["sig"])
        if ent is None or res["plan"]["run"] < ent["plan"]["run"]:
            n = ent["count"] if ent else 0
            agg["violations"][v["sig"]] = {"count": n + 1, "plan": res["plan"], "text": v["text"],
                                           "digest": res["digest"]}
        else:
            ent["count"] += 1


def merge(a: dict, b: dict) -> None:
    for k in ("runs", "sim_s", "steps", "skipped", "wall"):
        a[k] += b[k]
    for k in ("faults", "probes", "other_props", "scen"):
        for kk, v in b[k].items():
            a[k][kk] = a[k].get(kk, 0) + v
    a["abstract"].update(b["abstract"])
    a["nontrivial_abstract"].update(b["nontrivial_abstract"])
    a["harness_errors"].extend(b["harness_errors"])
    for s in b["samples"]:
        if len(a["samples"]) < 4:
            a["samples"].append(s)
    for sig, ent in b["violations"].items():
        cur = a["violations"].get(sig)
        if cur is None:
            a["violations"][sig] = ent
        else:
            n = cur["count"] + ent["count"]
            if ent["plan"]["run"] < cur["plan"]["run"]:
                a["violations"][sig] = ent
            a["violations"][sig]["count"] = n


def run_batch(prop: str, specs: list, seed: int, budget_s: float) -> dict:
    """specs: list of (engine, scenario, run).  Fan out over a fork pool."""
    nw = min(NPROC, max(1, len(specs)))
    chunks = [specs[i::nw] for i in range(nw)]
    agg = new_agg()
    ctx = multiprocessing.get_context("fork")
    try:
        with ProcessPoolExecutor(max_workers=nw, mp_context=ctx) as ex:
            for part in ex.map(_worker, [(c, seed, prop, budget_s, None) for c in chunks]):
                merge(agg, part)
    except BrokenProcessPool as err:
        agg["harness_errors"].append(f"worker died: {err}")
    return agg


# ------------------------------------------------------------------------------------
# replay + shrink
# ------------------------------------------------------------------------------------


def replay(plan_dict: dict) -> dict:
    pd = json.loads(json.dumps(plan_dict))
    pd["materialised"] = True
    return execute(pd)


def has_sig(res: dict, sig: str) -> bool:
    return any(v["sig"] == sig for v in res["violations"])


def shrink(plan_dict: dict, sig: str, max_exec: int = 250, wall_s: float = 60.0) -> tuple[dict, int]:
    """ddmin over ops, then over decisions; keep a candidate iff the same signature recurs."""
    t0 = clock.REAL_TIME()
    n_exec = [0]
    best = json.loads(json.dumps(plan_dict))
    best["materialised"] = True

    def ok(cand: dict) -> bool:
        if n_exec[0] >= max_exec or clock.REAL_TIME() - t0 > wall_s:
            return False
        n_exec[0] += 1
        try:
            r = replay(cand)
        except BaseException:
            return False
        return r["harness_error"] is None and has_sig(r, sig)

    def ddmin(items: list, build) -> list:
        n = 2
        while len(items) >= 1 and n_exec[0] < max_exec and clock.REAL_TIME() - t0 <= wall_s:
            size = max(1, len(items) // n)
            removed = False
            for i in range(0, len(items), size):
                cand_items = items[:i] + items[i + size:]
                if ok(build(cand_items)):
                    items = cand_items
                    n = max(n - 1, 2)
                    removed = True
                    break
            if not removed:
                if size == 1:
                    break
                n = min(len(items), n * 2)
        return items

    base_ops = best["ops"]
    free_idx = [i for i, o in enumerate(base_ops) if not o.get("pin")]
    if free_idx:
        pinned_idx = set(i for i, o in enumerate(base_ops) if o.get("pin"))

        def build_ops(idx):
            c = json.loads(json.dumps(best))
            keep = set(idx) | pinned_idx
            c["ops"] = [json.loads(json.dumps(o)) for i, o in enumerate(base_ops) if i in keep]
            return c

        best = build_ops(ddmin(free_idx, build_ops))

    keys = sorted(best["decisions"].keys())
    if keys:

        def build_dec(ks):
            c = json.loads(json.dumps(best))
            c["decisions"] = {k: best["decisions"][k] for k in ks}
            return c

        keys2 = ddmin(keys, build_dec)
        best = build_dec(keys2)
    # values toward their plain defaults (one field at a time; kept only if the same violation recurs)
    DEFAULTS = {"gap": 0.004, "dur": 0.001, "stall": 0, "down": 0, "start_gap": 0.0}
    for i, o in enumerate(best["ops"]):
        for f, dv in DEFAULTS.items():
            if f in o and o[f] != dv and isinstance(o[f], (int, float)) and not isinstance(o[f], bool):
                c = json.loads(json.dumps(best))
                c["ops"][i][f] = dv
                if ok(c):
                    best = c
    for f, dv in (("tie_rate", 0.0), ("split_rate", 0.0), ("drift", 0.0)):
        if best["knobs"].get(f) not in (None, dv):
            c = json.loads(json.dumps(best))
            c["knobs"][f] = dv
            if ok(c):
                best = c
    return best, n_exec[0]


def write_replay(prop: str, sig: str, plan_dict: dict, res: dict, text: str) -> str:
    rdir = os.environ.get("SIMRF_REPLAY_DIR") or os.path.join(VERIF, "replays")
    os.makedirs(rdir, exist_ok=True)
    dig = hashlib.sha256((sig + json.dumps(plan_dict, sort_keys=True)).encode()).hexdigest()[:8]
    path = os.path.join(rdir, f"{prop}-{plan_dict.get('seed', 0)}-{dig}.json")
    with open(path, "w") as f:
        json.dump({"property": prop, "signature": sig, "violation": text, "plan": plan_dict,
                   "trace_digest": res["digest"], "events_tail": res["events_tail"]}, f, indent=1)
    return path


def fresh_replay(prop: str, path: str, timeout: float = 300) -> tuple[int, str]:
    env = dict(os.environ)
    env["SIMRF_INNER"] = "1"
    p = subprocess.run([os.path.join(VERIF, "check"), prop, "--replay", path],
                       stdout=subprocess.PIPE, stderr=subprocess.STDOUT, text=True, timeout=timeout, env=env)
    return p.returncode, p.stdout
