"""The simulated radio side: FakeSerial (the Serial duck type the library opens), the
gateway-firmware model (evofw3 / HGI80) and the RF hub shared by ports and scripted peers.

The simulator -- not the kernel -- decides when bytes become readable, how a read() is
segmented, whether an echo / a frame is lost, duplicated or delayed, and whether a
read/write raises.  All decisions come from the Plan through named decision points.
"""
from __future__ import annotations

from serial import SerialException  # type: ignore[import-untyped]

HGI_PLACEHOLDER = b"18:000730"

_fd_counter = [100]


def reset() -> None:
    _fd_counter[0] = 100


class FakeSerial:
    """Implements exactly what serial_asyncio.SerialTransport / PortTransport touch."""

    def __init__(self, hub: "Hub", name: str, gid: str, fw: str = "evofw3") -> None:
        self.hub = hub
        self.name = self.portstr = self.port = name
        self.gid = gid.encode()
        self.fw = fw  # "evofw3" | "hgi80"
        _fd_counter[0] += 1
        self.fd = _fd_counter[0]
        self.timeout = 0
        self.write_timeout = 0
        self.is_open = True
        self.rx = bytearray()
        self.reads = 0
        self.zero_last = False
        self._svc_scheduled = False
        self.fail_read: Exception | None = None
        self.fail_write: Exception | None = None
        self.read_log: list[tuple[float, int]] = []
        self.closed_at: float | None = None

    # -- Serial duck type --------------------------------------------------------
    def fileno(self) -> int:
        return self.fd

    def set_low_latency_mode(self, x) -> None:
        pass

    def flush(self) -> None:
        pass

    def close(self) -> None:
        self.is_open = False
        self.closed_at = self.hub.loop.time()

    def reset_input_buffer(self) -> None:
        self.rx.clear()

    @property
    def in_waiting(self) -> int:
        return len(self.rx)

    @property
    def out_waiting(self) -> int:
        return 0

    def read(self, n: int = 1) -> bytes:
        if self.fail_read is not None:
            err, self.fail_read = self.fail_read, None
            self.hub.count("read_error")
            raise err
        self.reads += 1
        avail = min(n, len(self.rx))
        k = self.hub.split_decision(self, avail)
        if k == 0 and self.zero_last:
            k = avail  # never two empty reads in a row: progress is guaranteed
        self.zero_last = k == 0
        d = bytes(self.rx[:k])
        del self.rx[:k]
        self.read_log.append((self.hub.loop.time(), len(d)))
        return d

    def write(self, data: bytes) -> int:
        if self.fail_write is not None:
            err, self.fail_write = self.fail_write, None
            self.hub.count("write_error")
            raise err
        self.hub.on_write(self, bytes(data))
        return len(data)

    # -- readiness ------------------------------------------------------------------
    def kick(self) -> None:
        if not self._svc_scheduled:
            self._svc_scheduled = True
            self.hub.loop.call_soon(self._service)

    def _service(self) -> None:
        self._svc_scheduled = False
        if not self.rx and self.fail_read is None:
            return
        if not self.hub.loop.fire_reader(self.fd):
            return  # no reader registered: bytes stay pending (as in a kernel buffer)
        if self.rx:
            self.kick()


class Hub:
    """One ether.  Ports (gateways under test) and peers (scripted devices) share it."""

    def __init__(self, loop, plan) -> None:
        self.loop = loop
        self.plan = plan
        self.ports: dict[str, FakeSerial] = {}
        self.peers: list = []
        self.writes: list[tuple[float, str, bytes]] = []  # every serial.write()
        self.rx_log: list[tuple[float, str, bytes]] = []  # every delivery to a port
        self.tx_count: dict[tuple[str, bytes], int] = {}
        self.fault_counts: dict[str, int] = {}
        self.tx_policy = None  # fn(port, frame_bytes, nth) -> True if the whole transmission is lost
        self.echo_policy = None  # fn(port, frame_bytes, nth) -> list[float] latencies
        self.on_frame = None  # fn(port, frame_bytes, nth): engine hook after firmware
        self.unheard_policy = None  # fn(port, frame_bytes, nth) -> True: on the air (echoed) but no peer hears it
        self.cast_between_ports = True
        self.split_mode = "plan"  # "plan" | "all"
        self.quiet = False  # True after t_quiet: no more faults
        loop.on_add_reader = self._reader_added

    def _reader_added(self, fd) -> None:
        for ser in self.ports.values():
            if ser.fd == fd and ser.rx:
                ser.kick()

    def count(self, kind: str, n: int = 1) -> None:
        self.fault_counts[kind] = self.fault_counts.get(kind, 0) + n

    def add_port(self, name: str, gid: str, fw: str = "evofw3") -> FakeSerial:
        ser = FakeSerial(self, name, gid, fw)
        self.ports[name] = ser
        return ser

    def add_mqtt_port(self, name: str, gid: str) -> "FakeMqttPort":
        port = FakeMqttPort(self, name, gid)
        self.ports[name] = port
        return port

    def serial_for_url(self, name, **cfg):
        try:
            ser = self.ports[name]
        except KeyError:
            raise SerialException(f"no such simulated port: {name}") from None
        ser.is_open = True
        return ser

    # -- read segmentation ----------------------------------------------------------
    def split_decision(self, ser: FakeSerial, avail: int) -> int:
        if avail == 0 or self.split_mode == "all" or self.quiet:
            return avail
        rate = self.plan.knob("split_rate", 0.0)
        if rate <= 0.0:
            return avail
        key = f"read#{ser.name}/{ser.reads}"

        def gen(r):
            if r.random() >= rate:
                return ["all"]
            m = r.random()
            if m < 0.25:
                return ["cr"]
            if m < 0.40:
                return ["one"]
            if m < 0.50:
                return ["zero"]
            if m < 0.65:
                return ["crlf"]
            return ["frac", round(r.random(), 3)]

        d = self.plan.decide(key, gen, ["all"])
        mode = d[0]
        if mode == "all":
            return avail
        self.count("read_split")
        buf = ser.rx
        if mode == "one":
            return 1
        if mode == "zero":
            return 0
        if mode == "cr":  # up to and including the first CR (cut between CR and LF)
            i = buf.find(b"\r")
            return min(avail, i + 1) if i >= 0 else avail
        if mode == "crlf":  # exactly one whole line
            i = buf.find(b"\r\n")
            return min(avail, i + 2) if i >= 0 else avail
        if mode == "frac":
            return max(1, min(avail, int(avail * d[1])))
        return avail

    # -- delivery -------------------------------------------------------------------
    def deliver(self, ser: FakeSerial, data: bytes) -> None:
        """Bytes become readable on `ser` now."""
        self.rx_log.append((self.loop.time(), ser.name, data))
        if isinstance(ser, FakeMqttPort):
            ser.deliver(data)
            return
        ser.rx += data
        ser.kick()

    def inject(self, ser: FakeSerial, data: bytes, delay: float = 0.0):
        """Schedule bytes to become readable after `delay` virtual seconds."""
        if delay <= 0:
            return self.loop.call_soon(self.deliver, ser, data)
        return self.loop.call_later(delay, self.deliver, ser, data)

    def rx_line(self, ser: FakeSerial, frame: str, delay: float = 0.0, rssi: str = "045"):
        return self.inject(ser, f"{rssi} {frame}\r\n".encode(), delay)

    def broadcast(self, frame: str, delay: float = 0.0, rssi: str = "045", exclude=None) -> None:
        """A frame from a scripted peer reaches every port (subject to per-port RF faults)."""
        for name, ser in self.ports.items():
            if name == exclude:
                continue
            self.rx_line(ser, frame, delay, rssi)

    # -- firmware -------------------------------------------------------------------
    def on_write(self, ser: FakeSerial, data: bytes) -> None:
        t = self.loop.time()
        self.writes.append((t, ser.name, data))
        if data[:1] == b"!":
            if ser.fw == "evofw3" and data.strip() == b"!V":
                self.inject(ser, b"# evofw3 0.7.1\r\n", 0.005)
            return
        frame = data.rstrip(b"\r\n")
        if ser.fw == "hgi80" and frame[7:16] != HGI_PLACEHOLDER:
            self.count("hgi80_drop")
            return  # HGI80 silently drops impersonated frames
        if frame[7:16] == HGI_PLACEHOLDER:
            frame = frame[:7] + ser.gid + frame[16:]
        key = (ser.name, frame)
        nth = self.tx_count[key] = self.tx_count.get(key, 0) + 1
        if self.tx_policy is not None and self.tx_policy(ser, frame, nth):
            self.count("tx_lost")  # the transmission never made it onto the air: no echo, nobody hears it
            return
        # echo to the sender
        lats = [0.01] if self.echo_policy is None else self.echo_policy(ser, frame, nth)
        for lat in lats:
            self.inject(ser, b"000 " + frame + b"\r\n", lat)
        # the ether: other gateways hear it
        if self.cast_between_ports:
            for name, other in self.ports.items():
                if other is not ser:
                    self.inject(other, b"045 " + frame + b"\r\n", 0.012)
        if self.on_frame is not None:
            self.on_frame(ser, frame, nth)
        if self.unheard_policy is not None and self.unheard_policy(ser, frame, nth):
            self.count("tx_unheard")  # the dongle echoed it, the addressee did not receive it
            return
        for peer in self.peers:
            peer.on_frame(ser, frame, nth)


class FakeMqttMessage:
    def __init__(self, topic: str, payload: bytes) -> None:
        self.topic = topic
        self.payload = payload
        self.timestamp = 0.0


class FakeMqttClient:
    """Stands in for paho.mqtt.client.Client: no thread, publishes recorded."""

    instances: list = []
    fail_publish = None

    def __init__(self, *a, **k) -> None:
        self.on_connect = self.on_disconnect = self.on_message = None
        self.published: list[tuple[float, str, str]] = []
        self.subscribed: list[str] = []
        self.started = False
        self.loop = None
        FakeMqttClient.instances.append(self)

    def username_pw_set(self, u, p) -> None:
        pass

    def connect_async(self, host, port, keepalive) -> None:
        self.host = host

    def loop_start(self) -> None:
        self.started = True

    def loop_stop(self) -> None:
        self.started = False

    def subscribe(self, topic, qos=0) -> None:
        self.subscribed.append(topic)

    def unsubscribe(self, topic) -> None:
        pass

    def disconnect(self) -> None:
        pass

    def publish(self, topic, payload=None, qos=0):
        import time

        if FakeMqttClient.fail_publish is not None:
            err, FakeMqttClient.fail_publish = FakeMqttClient.fail_publish, None
            raise err
        port = getattr(self, "port", None)
        if port is not None and port.fail_write is not None:
            err, port.fail_write = port.fail_write, None
            port.hub.count("write_error")
            raise err
        self.published.append((time.perf_counter(), topic, payload))
        if port is not None:
            port.on_publish(topic, payload)
        return True


class FakeMqttPort:
    """A ramses_esp gateway behind an MQTT broker, seen from the hub like a serial port: what the library publishes on <topic>/tx
    is a transmission (the firmware model echoes it, peers hear it); whatever the hub delivers reaches the library as JSON
    messages on <topic>/rx through the client's on_message callback, on the loop (there is no paho thread)."""

    fw = "evofw3"

    def __init__(self, hub: "Hub", name: str, gid: str) -> None:
        self.hub = hub
        self.name = name
        self.gid = gid.encode()
        self.topic = f"RAMSES/GATEWAY/{gid}"
        self.client: FakeMqttClient | None = None
        self.fd = -1
        self.rx = bytearray()
        self.fail_read: Exception | None = None  # not applicable to MQTT (kept for interface parity)
        self.fail_write: Exception | None = None
        self.closed_at: float | None = None

    def attach(self, client: "FakeMqttClient") -> None:
        self.client = client
        client.port = self

    def kick(self) -> None:
        pass

    def status(self, word: bytes) -> None:
        """The gateway's retained status topic: b'online' / b'offline'."""
        self.client.on_message(self.client, None, FakeMqttMessage(self.topic, word))

    def on_publish(self, topic: str, payload: str) -> None:
        import json

        if topic != self.topic + "/tx":
            return
        self.hub.on_write(self, json.loads(payload)["msg"].encode() + b"\r\n")

    def deliver(self, data: bytes) -> None:
        import json
        from datetime import datetime as real_dt  # noqa: F401
        import ramses_tx.transport as T

        for line in data.split(b"\r\n"):
            if not line:
                continue
            ts = T.dt.now().isoformat(timespec="microseconds")
            msg = FakeMqttMessage(self.topic + "/rx", json.dumps({"ts": ts, "msg": line.decode("ascii", "replace")}).encode())
            self.client.on_message(self.client, None, msg)
