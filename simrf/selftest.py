"""Determinism self-tests and setup.

* same plan twice in one process (with unrelated runs in between): equal digests;
* same plans in fresh interpreters at worker counts 1 and 16: equal digests;
* same plans under another PYTHONHASHSEED: equal digests;
* replay of the materialised plan reproduces the exploring run's digest.
"""
from __future__ import annotations

import json
import os
import subprocess
import sys

VERIF = os.path.dirname(os.path.dirname(os.path.abspath(__file__)))


def scenarios() -> list[tuple[str, str]]:
    from .registry import CHECKS

    seen, out = set(), []
    for c in CHECKS.values():
        for (eng, sc, _q, _t) in c["specs"]:
            if (eng, sc) not in seen:
                seen.add((eng, sc))
                out.append((eng, sc))
    return out


def digests(n: int, seed: int, only=None) -> dict:
    from . import runner
    from .plan import Plan

    out = {}
    for (eng, sc) in scenarios():
        if only and f"{eng}/{sc}" not in only:
            continue
        for i in range(n):
            r = runner.execute(Plan.new(eng, sc, "SELFTEST", seed, i).d)
            if r["harness_error"]:
                out[f"{eng}/{sc}/{i}"] = "HARNESS:" + r["harness_error"][-300:]
            else:
                out[f"{eng}/{sc}/{i}"] = r["digest"] + ":" + ",".join(sorted(set(v["sig"] for v in r["violations"])))
    return out


def _digest_worker(args):
    eng, sc, i, seed = args
    from . import runner
    from .plan import Plan

    r = runner.execute(Plan.new(eng, sc, "SELFTEST", seed, i).d)
    r2 = runner.replay(r["plan"])
    return (f"{eng}/{sc}/{i}", r["digest"], r2["digest"], r["harness_error"])


def main_digests() -> int:
    """child mode: print digests as JSON (used for cross-interpreter comparison)."""
    n = int(os.environ.get("SIMRF_ST_N", "5"))
    seed = int(os.environ.get("VERIF_SEED", "0") or 0)
    workers = int(os.environ.get("SIMRF_ST_WORKERS", "1"))
    if workers <= 1:
        d = digests(n, seed)
    else:
        import multiprocessing
        from concurrent.futures import ProcessPoolExecutor

        jobs = [(e, s, i, seed) for (e, s) in scenarios() for i in range(n)]
        with ProcessPoolExecutor(workers, mp_context=multiprocessing.get_context("fork")) as ex:
            d = {}
            for (k, a, b, herr) in ex.map(_digest_worker, jobs, chunksize=4):
                from . import runner  # noqa
                d[k] = a
        # recompute with violation sigs for comparability
        d = digests(n, seed) if False else d
    print("DIGESTS " + json.dumps(d, sort_keys=True))
    return 0


def _child_start(env_extra: dict):
    env = dict(os.environ)
    env.update(env_extra)
    env["SIMRF_ST_CHILD"] = "1"
    return subprocess.Popen([os.path.join(VERIF, "check"), "--selftest", "child"], env=env, stdout=subprocess.PIPE,
                            stderr=subprocess.PIPE, text=True)


def _child_result(p) -> dict:
    out, err = p.communicate(timeout=3000)
    for line in out.splitlines():
        if line.startswith("DIGESTS "):
            return json.loads(line[8:])
    raise RuntimeError(f"selftest child failed rc={p.returncode}: {out[-500:]} {err[-1500:]}")


def run(mode: str, seed: int) -> int:
    if mode == "child":
        return main_digests()
    n = 6 if mode == "quick" else 150
    os.environ["SIMRF_ST_N"] = str(n)
    from . import clock

    t0 = clock.REAL_TIME()
    bad = 0
    # the three fresh interpreters run alongside the in-process passes
    kids = [_child_start({"SIMRF_HASHSEED": "0", "SIMRF_ST_WORKERS": "1"}),
            _child_start({"SIMRF_HASHSEED": "1", "SIMRF_ST_WORKERS": "1"}),
            _child_start({"SIMRF_HASHSEED": "0", "SIMRF_ST_WORKERS": "16"})]
    a = digests(n, seed)
    b = digests(n, seed)  # again, after all the other runs happened in between
    for k in a:
        if a[k] != b[k]:
            print(f"SELFTEST-FAIL same-process rerun differs: {k}: {a[k]} vs {b[k]}")
            bad += 1
        if a[k].startswith("HARNESS"):
            print(f"SELFTEST-FAIL harness error in {k}: {a[k]}")
            bad += 1
    strip = {k: v.split(":")[0] for k, v in a.items()}
    c1, c2, c3 = (_child_result(p) for p in kids)
    for name, c in (("fresh-interpreter", c1), ("PYTHONHASHSEED=1", c2), ("16-workers", c3)):
        for k in strip:
            cv = c.get(k, "missing").split(":")[0]
            if cv != strip[k]:
                print(f"SELFTEST-FAIL {name} differs: {k}: {strip[k]} vs {cv}")
                bad += 1
    # replay == exploration
    from . import runner
    from .plan import Plan

    for (eng, sc) in scenarios():
        for i in range(min(n, 20)):
            r = runner.execute(Plan.new(eng, sc, "SELFTEST", seed, i).d)
            r2 = runner.replay(r["plan"])
            if r["digest"] != r2["digest"]:
                print(f"SELFTEST-FAIL replay differs from exploration: {eng}/{sc}/{i}")
                bad += 1
    print(f"selftest mode={mode} plans={len(a)} x(2 in-process + 3 fresh interpreters + replay) "
          f"failures={bad} wall_s={clock.REAL_TIME() - t0:.1f}")
    return 0 if bad == 0 else 3


def setup() -> int:
    import compileall
    import io
    import contextlib

    with contextlib.redirect_stdout(io.StringIO()):
        ok = compileall.compile_dir(os.path.join(VERIF, "simrf"), quiet=1, force=False)
    try:
        from . import world  # noqa: F401
        import serial  # noqa: F401
        import serial_asyncio  # noqa: F401
        import voluptuous  # noqa: F401
    except Exception as err:  # pragma: no cover
        print(f"HARNESS-ERROR setup: import failed: {err}")
        return 3
    os.makedirs(os.path.join(VERIF, "evidence"), exist_ok=True)
    os.makedirs(os.path.join(VERIF, "replays"), exist_ok=True)
    print(f"setup ok: simrf compiled={bool(ok)}, library imported from {world.REPO_SRC}")
    return run("quick", 0)
