"""Which engine scenarios decide which property, and how many runs each tier spends."""
from __future__ import annotations

REAL_TX = ["ramses_tx.protocol.PortProtocol/_DeviceIdFilterMixin", "ramses_tx.protocol_fsm.ProtocolContext + states",
           "ramses_tx.transport.PortTransport (+ serial_asyncio.SerialTransport, limiter, leaker, sync-avoidance)",
           "ramses_tx.transport.MqttTransport (token bucket, status topic, JSON rx) in the MQTT variant of the qos scenarios",
           "ramses_tx.command.Command", "ramses_tx.packet.Packet / frame.Frame", "ramses_tx.message.Message + parsers"]
STUB_RF = ["simrf.rf.FakeSerial (Serial duck type)", "simrf.rf.Hub firmware model (evofw3/HGI80 echo, addr0 substitution)",
           "scripted responder/adversary (simrf.engines.*)", "simrf.vloop.VLoop (virtual-time asyncio loop)",
           "simrf.clock (virtual wall clock / perf_counter)"]

# property -> dict(specs=[(engine, scenario, quick_runs, thorough_runs)], ...)
CHECKS: dict[str, dict] = {
    "C07": {
        "specs": [("qos", "send", 4000, 120000), ("qos", "episode", 1500, 40000), ("qos", "burst", 300, 6000)],
        "budget": (100, 1500),
        "rule": "one run = one seeded plan: 1-6 concurrent callers x 1-4 send_cmd calls with drawn QoS, priorities, "
                "firmware kind, QoS mode, per-transmission echo/reply decisions (lost/late/dup/before-echo, latencies "
                "placed around the live timers), foreign near-miss traffic, stalls, timer ties, pause/resume, "
                "read/write errors, disconnects. distinct = distinct abstract traces (sequence of echo/reply "
                "decision classes and caller outcomes); non-trivial = at least one fault fired while a send was in flight",
        "real": REAL_TX, "stub": STUB_RF,
        "assumptions": ["exploration by seeded sampling, not exhaustive", "callers use the protocol's send_cmd (50 %), the Engine's async_send_cmd "
                        "(33 %) or the Gateway's send_cmd Task wrapper (17 %; there the fabricated replies are also dispatched to devices, whose "
                        "handlers' exceptions are not the sender's and are only counted)", "start-up: the dongle echoes the signature poll at "
                        "once, only at the n-th poll, or never (the transport then connects without knowing its own id)", "80 % serial dongle (evofw3 / HGI80), 20 % a ramses_esp gateway behind an MQTT broker (real MqttTransport, fake paho client: "
                        "publish = transmission, echo and replies arrive as JSON on <topic>/rx, offline/online status = pause/resume)",
                        "firmware/responder are models written from the protocol comments"],
    },
    "C08": {
        "specs": [("qos", "send", 3000, 100000), ("qos", "burst", 800, 20000), ("qos", "episode", 800, 20000),
                  ("qos", "twins", 800, 20000)],
        "budget": (100, 1500),
        "rule": "same plans as C07 plus `burst` (4-36 commands queued at once, mixed priorities); oracles on the "
                "serial.write() history: retry budget, back-off doubling (hand-off to hand-off), nothing transmitted "
                "after the verdict, one in flight, priority-then-FIFO pick order, overflow only when full. Scenario `twins`: "
                "byte-identical commands from 2-3 callers, never echoed; the queued ones time out or are cancelled while the first "
                "is in flight, which must still be written exactly 1 + min(max_retries, 3) times and fail no earlier than its "
                "cumulative back-off. distinct/non-trivial as C07",
        "real": REAL_TX, "stub": STUB_RF,
        "assumptions": ["back-off timing judged only with the duty-cycle limiter off and no disruptive fault in the run",
                        "hand-off time observed by wrapping the transport instance's write_frame"],
    },
    "C09": {
        "specs": [("qos", "episode", 4000, 120000), ("qos", "send", 1500, 40000), ("qos", "burst", 300, 6000)],
        "budget": (100, 1500),
        "rule": "episodes = C07/C08 plans with every fault kind enabled plus caller cancellation and bytes after "
                "close; after the last call a 30 s fault-free quiet period, then FSM state/is_sending/queue check, "
                "a probe command, and the loop exception handler must be empty. distinct/non-trivial as C07",
        "real": REAL_TX, "stub": STUB_RF,
        "assumptions": ["reconnect only via paths the library supports (pause/resume); a second transport on a used "
                        "protocol is API misuse and not exercised"],
    },
    "C06": {
        "specs": [("qos", "match", 10000, 150000)],
        "budget": (100, 1500),
        "rule": "one run = 1-3 awaited requests of a drawn kind/context/gateway id with prompt echo+genuine reply, "
                "and adversary near-miss packets (differing in exactly one of code/verb/device/context) placed before "
                "the echo, between echo and reply, and in the same read as the reply. distinct = distinct "
                "(kind, near-miss class, position) tuples; non-trivial = at least one near-miss delivered in flight",
        "real": REAL_TX, "stub": STUB_RF,
        "assumptions": ["request/reply templates for the listed codes only; same-header requests from another requester "
                        "and replies addressed to another requester are documented collisions: counted, not judged"],
    },
    "C01": {
        "specs": [("rx", "serial", 2400, 40000), ("rx", "file", 1600, 30000), ("rx", "dict", 1600, 30000),
                  ("rx", "mqtt", 1200, 20000), ("rx", "decode", 600, 20000)],
        "budget": (120, 1500),
        "rule": "one run = a stream of 5-150 lines (real corpus lines, payloads sampled from the library's own per-code "
                "regexes under the three address shapes, and 1-3-edit corruptions of both) offered through one transport: "
                "serial (three passes over the same bytes: two seeded read-segmentation schedules incl. 0/1-byte reads "
                "and CR|LF cuts, and CRLF-aligned writes), packet-log file, packet dict, MQTT JSON. Oracles: exception "
                "type from the 3 constructors + Message, nothing escapes into the loop, delivered sequence == the lines "
                "that decode in isolation, segmentation independence. distinct = distinct (transport, line-source "
                "classes) traces; non-trivial = at least one rejected line or one split read in the stream",
        "real": ["ramses_tx.transport.PortTransport._read_ready/_frame_read/_pkt_read", "FileTransport._reader",
                 "MqttTransport._on_message", "ramses_tx.packet.Packet.from_file/from_port/from_dict", "ramses_tx.message.Message",
                 "ramses_tx.protocol.PortProtocol/ReadProtocol", "all parsers"],
        "stub": STUB_RF + ["simrf.rf.FakeMqttClient (no paho thread)", "in-memory TextIOWrapper for packet logs"],
        "assumptions": ["serial: in 12 % of the passes the dongle is silent during the start-up signature poll and its echo arrives later, in "
                        "the same read as the stream", "decode runs (also part of this check): the lines are replayed through a whole Gateway; an "
                        "exception escaping the receive chain (pkt_received -> the gateway's message handler) is judged, what devices' handlers "
                        "raise later is not", "packet-log files are offered as ASCII text (the TextIOWrapper's codec belongs to the caller)",
                        "MQTT messages are well-formed JSON objects with ts/msg, or truncated JSON"],
    },
    "C05": {
        "specs": [("rx", "decode", 5000, 80000)],
        "budget": (120, 1500),
        "rule": "one run = 5-150 decodable lines (corpus + regex-sampled + well-formed arrays of 1-8 elements from the "
                "proper device kind) decoded (1) in order, (2) permuted with duplicates after a wall-clock jump of 0-400 "
                "days and an lru_cache flush, (3) by a live serial stack vs in isolation at the same timestamp; JSON "
                "equality per line; monitors: JSON-serialisable plain types, index == frame index (0418, 3220, simple-idx "
                "codes), array == list of single-element decodes, ratios 0..1, temperatures in wire range. distinct = "
                "distinct (verb, code) sequences; non-trivial = >= 2 lines decoded",
        "real": ["ramses_tx.message.Message", "ramses_tx.parsers.*", "ramses_tx.frame/_pkt_idx/_has_array", "PortTransport+PortProtocol (pass 3)"],
        "stub": STUB_RF,
        "assumptions": ["pure clauses (element-wise arrays, index consistency, ranges) are monitored on generated traffic, not enumerated",
                        "pass 4: the lines replayed through a whole Gateway 0.4 s apart (array lines twice, so that split-array pairs occur): the "
                        "payload a handler was given must read the same afterwards", "generated arrays contain null elements (000A) and 7FFF setpoints",
                        "arrays are judged only when sent by the device kind that really sends them (01: / 02: / 23:)"],
    },
    "C02": {
        "specs": [("rx", "logrt", 3000, 50000), ("rx", "serial", 300, 10000), ("rx", "dict", 300, 10000)],
        "budget": (120, 1500),
        "rule": "logrt: a live serial session (seeded gaps 0-30 s, some crossing midnight) with packet_log enabled (plain / "
                "rotate_bytes / rotate at midnight); the written file(s) are replayed through a fresh FileTransport; "
                "oracle: same packets (rssi, frame, comment, error) in the same order, replayed dtm within [0, 2 ms) of the "
                "live dtm, timestamps non-decreasing, every line splits [:26]/[27:]. Plus the parse/print identity monitor "
                "on every frame of every rx run (not enumerated). distinct = distinct (rotation, file count, line classes)",
        "real": ["ramses_tx.logger (_Logger, formatters, rotating handlers)", "ramses_tx.packet.Packet", "PortTransport", "FileTransport", "ramses_tx.command.Command"],
        "stub": STUB_RF + ["scratch directory under $TMPDIR per run (removed at the end of the run)"],
        "assumptions": ["the parse/print half of C02 is a pure function: monitored on generated traffic only, not claimed as enumerated",
                        "also monitored: repr(pkt) as the saved-state line ('<26-char timestamp> <frame>', every 7th entry on a whole second) "
                        "reads back as an equal packet; a structurally valid frame whose code has no schema still parses and prints",
                        "live timestamps are ms-truncated by the library; agreement is judged to 2 ms"],
    },
    "C11": {
        "specs": [("limiter", "serial", 400, 16000), ("limiter", "mqtt", 800, 30000)],
        "budget": (150, 1500),
        "rule": "one run = 1-8 tasks calling transport.write_frame() in a seeded pattern (bursts of 3-300, steady streams at "
                "0.02-6 s periods, idle gaps up to 200 s, concurrent callers, frames of 1-48 payload bytes, sync-cycle "
                "announcements received meanwhile) over 1-20 virtual minutes with the real constants; oracle over every "
                "window [t_i, t_j] of the serial.write()/publish history: bits <= 384 b/s x L + 23040 + pending frames; "
                "writes <= L/0.05 + 2; MQTT publishes <= 80/60 s x L + 160, calls return within 1 s (dropped, not queued); "
                "each accepted frame written once, unaltered, in call order. Also: loop stalls while writes are queued (the write "
                "spacing must hold; the duty-cycle bound is judged in the runs without stalls), callers passing disable_tx_limits=True on "
                "the serial port, the MQTT gateway's status topic bouncing offline/online, an orderly restart of the transport on the same "
                "port (the regulation carries over). distinct = distinct arrival-pattern strings; non-trivial = >= 3 writes",
        "real": ["ramses_tx.transport.limit_duty_cycle / avoid_system_syncs / track_system_syncs", "PortTransport._leak_sem + "
                 "BoundedSemaphore", "_FullTransport.write_frame", "MqttTransport.write_frame token bucket"],
        "stub": STUB_RF + ["simrf.rf.FakeMqttClient"],
        "assumptions": ["the limiter's own bit accounting (330 + 10 x payload hex chars) is taken as the definition of a frame's bits",
                        "the 'one frame per write already pending' allowance is the bits of the other accepted-but-unwritten frames at the time of a write"],
    },
    "C10": {
        "specs": [("filt", "main", 3200, 60000)],
        "budget": (120, 1500),
        "rule": "one run = one drawn configuration (block list / known list overlapping or not, enforcement on/off incl. "
                "enforced-but-empty, active gateway listed / listed with class HGI / unlisted / block-listed) on a real "
                "Gateway, then 30-160 real corpus frames re-addressed over a pool of listed/unlisted/blocked ids of the same "
                "device types (plus 63:262142, --:------, 18:000730), some before the signature handshake, and 3-15 "
                "send_cmd calls with src/dst from every class; oracle = independent reference allowed(src) and allowed(dst) "
                "vs what reached the application handler / serial.write, and gwy.device_by_id; the dongle's start-up echo takes 10 ms .. "
                "1.5 s (the signature poll repeats every 50 ms). distinct = distinct (mode, gateway class, wanted/unwanted sequence); "
                "non-trivial = a filter is actually in force",
        "real": ["ramses_rf.Gateway (+ Engine)", "ramses_tx.protocol._DeviceIdFilterMixin._is_wanted_addrs/_set_active_hgi",
                 "ramses_tx.schemas.select_device_filter_mode", "ramses_rf.dispatcher", "Gateway.get_device.check_filter_lists",
                 "PortTransport"],
        "stub": STUB_RF,
        "assumptions": ["frames received before the handshake completes are judged only when the verdict does not depend on "
                        "whether the active gateway was already known", "a block-listed active gateway counts as unknown (the "
                        "library refuses to adopt it)"],
    },
    "C12": {
        "specs": [("disc", "main", 48, 2400)],
        "budget": (240, 3000),
        "rule": "one run = one drawn controller configuration (any subset of zones 00-0B up to max_zones, class radiator/"
                "zone-valve/electric/mixing/UFH, sensor of every permitted type incl. the controller itself or a TRV that is "
                "also an actuator, 0-8 actuators, DHW with any subset of sensor/hot-water valve/heating valve, appliance "
                "control none/BDR/OTB) served by a scripted controller (sync cycle + RQ answers) to a real Gateway with "
                "discovery on and no schema, for up to 49 virtual hours; 0005/000C replies are dropped with a drawn "
                "probability during the first 2-60 minutes. Oracle every 10 virtual minutes: every fact in gwy.schema is in "
                "the truth (sound), no learned fact disappears (monotone), and by fault window + 24.5 h the schema equals "
                "the truth (fault-free: 20 min). In 35 % of the runs the devices' own traffic (TRV demand / setpoint / window state with "
                "their zone index, sensors, relays) and a neighbour's system using the same zone indexes are on the air; the application "
                "takes snapshots (get_state) and restores them on a slow host while discovery runs. distinct = distinct configurations; "
                "non-trivial = non-empty configuration",
        "real": ["ramses_rf.Gateway with discovery", "entity_base._Discovery pollers", "system/heat.py, zones.py _handle_msg + schema",
                 "dispatcher", "QoS send path + PortTransport", "parsers 0005/000C/..."],
        "stub": STUB_RF + ["simrf.peers.SimController (written from the frame examples, independent of the library's builders)"],
        "assumptions": ["MIN_INTER_WRITE_GAP is raised to 1.0 s (the top of its legal range) so that 49 virtual hours cost seconds; 0.25 s for "
                        "configurations of more than 6 zones (with 1.0 s their polling bursts overflow the library's send buffer -- KF1's "
                        "mechanism -- and one probe can fail at every round)",
                        "actuator device types are those the library accepts as zone children (04: TRV, 13: BDR)",
                        "a lost reply is recovered at the next 24 h polling round: that is what 'a later polling round' means here"],
    },
    "C17": {
        "specs": [("sched", "codec", 4500, 60000)],
        "budget": (120, 1500),
        "rule": "one run = 1-3 zones (+DHW) with generated weekly schedules (1-6 switchpoints/day on the 5-minute grid, "
                "setpoints on the 0.01 grid biased to values where x*100 is not exact, DHW on/off); monitored pure clauses: "
                "full_sched_to_fragz/fragz_to_full_sched identity, fragment <= 41 bytes, W|0404 payload <= 48 bytes and "
                "decodes to the same fragment; simulated clause: RP|0404 fragments of one or two versions of a zone's "
                "schedule overheard in a seeded order with repeats -> zone.schedule is None or exactly one version; plus a "
                "set_schedule -> fresh gateway -> get_schedule round trip against the scripted controller for a drawn zone or the DHW "
                "(what was written must be what the controller holds, for that zone only). Zones 00-0B incl. 0A/0B, up to 48 switchpoints a "
                "day (10-20 fragments). distinct = distinct (zones, fragment orders); non-trivial = every run",
        "real": ["ramses_rf.system.schedule (Schedule, codecs)", "Command.set/get_schedule_fragment", "parser_0404", "Gateway + zones", "QoS send path"],
        "stub": STUB_RF + ["simrf.peers.SimController (own zlib/struct codec written from the wire layout)"],
        "assumptions": ["the encode/decode identity over all schedules is a pure clause: generated, not enumerated"],
    },
    "C18": {
        "specs": [("sched", "xfer", 2500, 80000)],
        "budget": (120, 1500),
        "rule": "one run = 1-5 get_schedule(force_io, timeout)/set_schedule calls over 1-3 zones (+DHW) of one system "
                "(different zones concurrently, one zone's calls in sequence) against the scripted controller, with per-"
                "exchange reply loss/delay/duplication (0006 and every 0404 fragment), schedule changes on the controller "
                "between exchanges, overheard current/old fragments, overall timeouts 0.3-400 s, caller cancellation and "
                "stalls; oracle: each transfer ends within its timeout with a version the controller held during the "
                "transfer (or an error), never a stitched one; afterwards zone_lock_idx is None and a fault-free forced "
                "get for every zone returns the current schedule in seconds; a write that reports success was taken by the controller. "
                "Further faults: requests / writes echoed by the dongle but not heard by the controller, a caller cancelled at the instant "
                "the per-system lock is handed over. non-trivial = a fault fired",
        "real": ["Schedule.get_schedule/_get_schedule/set_schedule/_is_dated/_handle_msg", "ScheduleSync._obtain_lock/_release_lock/"
                 "_schedule_version", "QoS send path + PortTransport", "zones, dispatcher"],
        "stub": STUB_RF + ["simrf.peers.SimController"],
        "assumptions": ["an unforced get_schedule may return the cached older version by design (no change counter is read)",
                        "a zone without a schedule answers with the documented 7-byte RP|0404; an error is a legitimate ending"],
    },
    "C19": {
        "specs": [("flog", "main", 4800, 80000)],
        "budget": (120, 1500),
        "rule": "one run = a history of 3-25 steps over a scripted controller log (0-64 entries preloaded): new fault/restore "
                "(announcement delivered, lost or duplicated), single RP|0418 for an arbitrary position overheard, "
                "get_faultlog(start, limit) through QoS with reply loss, loss-free read-throughs from index 0; after every "
                "step: the view and latest_event/latest_fault/active_faults/status never raise, timestamps strictly "
                "decrease with position, no timestamp twice, every entry was reported by the controller, a read-through of "
                "[0,n) with an unchanged log equals the log there, a delivered announcement pushes known entries down by one "
                "(judged only if no other 0418 reply arrived meanwhile); in some histories the host's wall clock is stepped back between "
                "steps. distinct = distinct step-class sequences",
        "real": ["ramses_rf.system.faultlog.FaultLog", "system/heat.py Logbook", "parser_0418 / parse_fault_log_entry", "QoS send path incl. "
                 "the null-entry reply special case", "dispatcher"],
        "stub": STUB_RF + ["simrf.peers.SimController (fault log, packed timestamps)"],
        "assumptions": ["timestamps of distinct entries are distinct (>= 1 s apart), as the library assumes"],
    },
}

REAL_STATE = ["ramses_rf.Gateway / ramses_tx.gateway.Engine (pause/resume, get_state, _restore_cached_packets)", "ramses_rf.dispatcher",
              "entity_base (_MessageDB, _Discovery off, Parent/Child)", "device/*, system/heat.py, system/zones.py (all views)",
              "ramses_rf.schemas (validators, load_schema)", "Message._expired / Packet lifespans", "PortTransport + PortProtocol (live), "
              "FileTransport (restore / reload)", "parsers"]
CHECKS["C13"] = {
    "specs": [("state", "views", 1600, 60000)],
    "budget": (150, 1800),
    "rule": "one run = one history built from the real logs of the corpus (a window of one log; 45 %: spliced with a second system; "
            "seeded deletion, duplication, neighbour swaps, field mutation inside the library's payload regexes biased to extremes, "
            "targeted edits: zero/max sync countdowns, sentinels, out-of-range zone indexes, re-zoned devices) delivered live on the fake "
            "serial port with eavesdropping on/off and max_zones 1..16, the virtual clock following the log or jumping by minutes to days; "
            "interleaved at seeded points: every public view of the gateway and of every device/system/zone/DHW, get_state(include_expired "
            "on/off), _restore_cached_packets of an earlier snapshot (plain, twice, damaged cache, cancelled mid-way, with a concurrent "
            "get_state). Oracle: no view raises; after every get_state/restore the engine is not paused, a probe packet is handled, a probe "
            "command is written, the sending/discovery flags are unchanged; a fresh 30C9 array from the known controller is reflected in "
            "its zones at the end. Variants: 15 % read-only gateways (disable_sending), 15 % the same history replayed as a packet log through "
            "Gateway(input_file=...) with the views/snapshots taken from the message handler while the replay is under way (it must "
            "then run to its end); in 80 % of the non-eavesdropping runs a twin gateway hears the same history minus the packets of the "
            "unrelated system (and a neighbour's controller/UFC broadcasts its own 000A/22C9/2309/30C9 array right before ours): every "
            "system the twin knows must have the same schema/params/status in both. A get_state() refused because a restore is under way "
            "must not change the engine, and that restore must finish. distinct = distinct (base log, splice, config, operation "
            "sequence); non-trivial = mutated history",
    "real": REAL_STATE, "stub": STUB_RF,
    "assumptions": ["'unrelated system' = spliced packets whose device ids (addresses and ids named inside 000C/1FC9 payloads) are disjoint "
                    "from the known history's, closed under 'names a known device'; the twin gets the same reads at the same instants",
                    "non-interference is judged with eavesdropping off (with it on, the library's heuristics look at every device in range by "
                    "design; an experimental SIMRF_TWIN_EAVES=1 run shows the known limitation that a neighbour's packet between the two "
                    "fragments of our 000A array splits it)",
                    "exceptions that only reach the loop's handler from deferred per-device handlers are counted, not judged (the clean "
                    "corpus already produces some)", "histories are sampled, not enumerated", "some histories carry frames with a code the library has no schema for (a neighbour's kit of "
                    "another make), delivered in the same read as the next frame",
                    "a forward step of the wall clock (host suspend) is used for long ageing; backward steps are not injected"],
}
CHECKS["C15"] = {
    "specs": [("state", "schema", 1600, 60000), ("state", "config", 800, 30000)],
    "budget": (150, 1800),
    "rule": "same histories as C13 (eavesdropping on in 60 %), checked every 16 packets and at seeded points: (a) SCH_GLOBAL_SCHEMAS("
            "shrink(gwy.schema)) accepts; (b) a fresh Gateway(**that schema) on an empty input reports the same controllers, zones "
            "(class, sensor, actuators), DHW parts and appliance control; (c) graph walk: zone index < max_zones, zone_by_idx and "
            "parent<->child links mutual, a device an actuator of one zone only, a device's controller = its parent's controller; (d) a "
            "device whose parent differs from the one it had at the previous check, with no SystemSchemaInconsistent logged or raised "
            "in between, is a violation. Scenario config: a generated schema (1-3 controllers, 0-12 zones of any class with sensors of "
            "every permitted type incl. the controller itself and a TRV that is also an actuator, 0-4 actuators, DHW parts, appliance "
            "control, UFH controllers with circuit maps, orphans) that the validator accepts is loaded as configuration: the gateway must "
            "start, report that topology, pass (a)-(c), and keep doing so while an unrelated history is received. distinct/non-trivial as C13",
    "real": REAL_STATE, "stub": STUB_RF,
    "assumptions": ["zones / controllers about which nothing is known are not compared in (b): shrink() removes them before the library "
                    "sees them again", "UFH circuit maps are outside the statement's list and are not compared",
                    "the raw (un-shrunk) schema is only probed, not judged",
                    "generated configurations place each device once and use system-level orphans of the only kind the library keeps there "
                    "(02:); schemas the validator refuses are counted, not loaded"],
}

CHECKS["C16"] = {
    "specs": [("state", "restore", 2400, 50000)],
    "budget": (150, 1800),
    "rule": "one run = a live history as in C13 (windows of real logs, spliced/mutated; bursts of several frames in one read; eavesdropping "
            "on in 25 %) with 1-4 crash points at seeded prefixes: S1 = get_state(include_expired on/off) with the loop drained; crash = a "
            "fresh Gateway on the same dongle id built from S1's schema and started with cached_packets = S1's packets, optionally after a "
            "downtime of 30 s .. 25 h (wall clock stepped) and on a slow host (every busy loop iteration costs virtual time, so that the "
            "restore takes 0.3-4 s); S2 = its snapshot; then S1 is restored again into the fresh gateway (S3) and "
            "into the original one (S4). Oracle: S2/S3/S4 add nothing, change nothing and lose nothing except packets that have expired by "
            "then; with eavesdropping off and no downtime the schemas are identical; every entry of every snapshot decodes, none is an RQ, "
            "none a W other than 0404, none expired unless asked for. 15 % of the restarts run with an enforced known_list (all devices of the "
            "history + a class-less spare 18: entry). The schema clause is not judged when the history's topology packets (000C / 0005 / zone "
            "indexes) were edited. distinct = (base log, splice, config, crash points); non-trivial = mutated history",
    "real": REAL_STATE, "stub": STUB_RF,
    "assumptions": ["the fresh gateway's own 7FFF signature echo is live traffic after the restart and is left out on both sides",
                    "whether a packet 'has expired by then' is the library's own Message._expired (its thresholds are C14's subject)",
                    "schema identity is judged with eavesdropping off only, as the statement scopes it",
                    "a snapshot taken in the same loop turn as the last delivery (not drained) is only counted"],
}

CHECKS["C14"] = {
    "specs": [("state", "fresh", 6000, 90000), ("rx", "mqtt", 500, 10000)],
    "budget": (150, 1800),
    "rule": "one run = 20-140 steps against a live gateway with a configured system (2-6 of zones 00-0B, DHW in 60 %): stateful frames "
            "generated by the engine in the shapes seen in the corpus (controller arrays and per-zone replies of 30C9/2309/000A, 2349, "
            "12B0, 0004, 2E04, 1260, 10A0, 1F41, the system's 3150|FC; TRV/thermostat/relay/DHW-sensor 30C9, 2309, 3150, 12B0, 0008, 1260; an "
            "OpenTherm bridge's RP|3220 for 8 data ids incl. readings of exactly zero), every value unique, "
            "each transmission delivered, lost or duplicated; interleaved noise (RQ and W echoes for the same contexts, a second "
            "controller's arrays for the same zone indexes, other devices); wall-clock steps of 5 s .. 2 days placed around the lifetimes; "
            "'thresholds' steps that deliver one fresh message of one of 29 kinds and evaluate Message._expired at ages 0, L/2, L-2ms, "
            "L+2ms, 1.5L, 2L+2.99, 2L+3.01, 2L+5.01, 3L+60, 5L+600 (L from an independent copy of the documented lifetimes, 1F09 from its "
            "own countdown 0..6553.5 s). Oracle: value == newest delivered while age < L; None (on the first read) once age >= 2L+5 s; "
            "_expired False before L, True from 2L+5 s, never True->False. distinct = distinct step-kind sequences; non-trivial = faults on",
    "real": REAL_STATE, "stub": STUB_RF + ["frame generators in simrf.engines.state_fresh (written from the parsers' frame examples)"],
    "assumptions": ["between L and 2L + 5 s either answer is accepted (the statement leaves it open); grace is taken as 5 s (the code uses 3 s)",
                    "rx/mqtt runs (part of this check): the host's TZ is varied (UTC, JST-9, EST5, IST-5:30) and a zone-aware timestamp equal to "
                    "the host's 'now' must be dated now (a message must not be born hours old or in the future)",
                    "when the newest message has expired, the value of an older, still-live message for the same attribute is accepted too",
                    "values are compared on the keys the frame layout documents (temperature, setpoint, mode, max_temp, window_open, ...)"],
}

CHECKS["C20"] = {
    "specs": [("bind", "main", 4000, 80000), ("bind", "scripted", 4000, 80000)],
    "budget": (150, 1800),
    "rule": "one run = one of the five supported pairings (RND->CTL, DHW->CTL, CO2->FAN itho, REM->FAN nuaire, DIS->FAN orcon, with their "
            "code lists, idx and 10E0 addenda) between two real Gateways (faked supplicant / faked respondent) on one virtual loop and one "
            "RF hub; per transmitted frame and receiver: heard / lost / sent 2-3 times with 0-60 ms gaps (two copies may share a read) / "
            "delayed by 10 ms .. 7 s placed around the 0.8 s, 3 s, 5 s and 5.1 s waits; echo heard / lost / doubled; third-party offers, "
            "accepts and confirms (between other parties, or competing for this supplicant / respondent) at seeded instants; loop stalls, "
            "timer ties; the supplicant starting 0 .. 5.2 s after (or before) the respondent, or one side alone; or the caller cancels an "
            "attempt after 0.05-4.5 s and retries 0-2 s later while the peer turns up 0-4.6 s into the retry. Then a second attempt "
            "with the faults off. Scenario scripted: see assumptions; there the gateway's own first 0-3 transmissions get no echo (it "
            "re-transmits), the scripted device answers the n-th copy, and success is required exactly when every awaited frame arrived "
            "inside the stated wait of its step (offer < 5 s after the call; confirm < 3 s after the accept was sent and < 5.1 s after "
            "the offer; addendum < 3 s after the confirm; accept < 5 s after the offer was sent). Oracle: every attempt ends (resp < 25 s, supp < 50 s) with a tuple or a binding-family error; with "
            "nothing lost, delayed or contested both ends succeed with equal tuples whose packets were on the air; after each attempt "
            "neither device is binding, the loop's exception handler is empty, and the second attempt succeeds. distinct = distinct "
            "(flow, mode, outcome) traces; non-trivial = faults on",
    "real": ["ramses_rf.binding_fsm (BindContext*, all states)", "device/base.py Fakeable", "dispatcher routing of 1FC9/10E0", "Command.put_bind",
             "QoS send path with BINDING_QOS (impersonation alert, retries)", "two ramses_rf.Gateway + PortTransport each"],
    "stub": STUB_RF + ["third-party binding frames written from the corpus examples"],
    "assumptions": ["scenario main: both roles run the library's code; scenario scripted: one side is a scripted RF device (1-3 copies of each "
                    "frame 0-300 ms apart, replies 15 ms .. 5.2 s after the frame they answer, an Orcon-style offer addressed to 63:262142, a "
                    "straggling copy of the offer after our accept) and the real side's tuple must be the handshake that was on the air; the "
                    "respondent is made Fakeable the way the repository's tests do", "a scripted reply never precedes the echo of the frame it "
                    "answers (the dongle's echo takes 10 ms, a real reply more)", "a frame delayed by more than 30 ms may be overtaken by the next one: such runs are judged for "
                    "termination and clean-up, not for success", "a third party that competes in the same handshake (its offer while the "
                    "respondent listens, its accept/confirm addressed to our devices) may win by design: not judged for tuple equality"],
}


def specs_for(prop: str, tier: str) -> list[tuple[str, str, int]]:
    out = []
    for (eng, sc, q, t) in CHECKS[prop]["specs"]:
        n = q if tier == "quick" else t
        out.extend((eng, sc, i) for i in range(n))
    return out


_TECH = "deterministic simulation (virtual-time asyncio loop, seeded fault/schedule plans, history oracles, ddmin replay)"
MANIFEST_TEXT = {
    "C06": {"text": "Seeded search: the real send path is driven with awaited requests while a scripted adversary places "
                    "one-attribute near-misses at the three instants that matter (before echo, between echo and reply, in the "
                    "reply's read); the oracle is which packet send_cmd returns. Evidence of absence over the sampled kinds/"
                    "contexts/gateway ids, not a proof over the header grammar.",
            "design_ref": "DESIGN.md 7/C06", "technique": _TECH,
            "note": "Trusted: the responder's reply templates (traced to frame examples in the library comments/corpus); "
                    "documented header collisions are counted as probes, not judged."},
    "C07": {"text": "Seeded search over schedules and fault sequences of the unmodified send stack on a virtual-time loop: "
                    "every call's outcome, owner and completion time are checked against the statement. A clean batch is "
                    "evidence, not proof.",
            "design_ref": "DESIGN.md 7/C07", "technique": _TECH,
            "note": "Trusted: VLoop's fidelity to asyncio's scheduling contract (FIFO call_soon, deadline order), the firmware "
                    "model; serial and MQTT transports."},
    "C08": {"text": "History oracles over the bytes written to the fake serial port and caller verdicts for the same seeded "
                    "plans plus queue bursts: retry budget, back-off, nothing after verdict, one in flight, priority/FIFO.",
            "design_ref": "DESIGN.md 7/C08", "technique": _TECH,
            "note": "Back-off timing judged only when the limiter cannot interfere; hand-off observed by wrapping the "
                    "transport instance's write_frame from the harness."},
    "C09": {"text": "Episodes with all fault kinds, then a fault-free quiet period; oracle = public FSM state, a probe command, "
                    "lock wedges (threading.Lock seam) and the loop exception handler.",
            "design_ref": "DESIGN.md 7/C09", "technique": _TECH,
            "note": "A blocking acquire of a held threading.Lock is converted to an observable wedge by a Lock stand-in "
                    "installed from /verif."},
}
MANIFEST_TEXT.update({
    "C01": {"text": "Seeded search over input streams x transports x read-segmentation schedules of the unmodified receive "
                    "path; oracles are exception families, loop-handler emptiness, continuity against in-isolation decoding "
                    "and segmentation independence.", "design_ref": "DESIGN.md 7/C01", "technique": _TECH,
            "note": "Inputs are sampled (corpus, regex sampler, 1-3 edits), not enumerated; V is computed by the library's own "
                    "constructors in isolation, so the transparent normalisation hacks are on both sides."},
    "C02": {"text": "Log write -> replay is simulated end to end (virtual clock incl. midnight, rotation); the pure parse/print "
                    "identity is only monitored on the traffic of the rx runs.", "design_ref": "DESIGN.md 7/C02",
            "technique": _TECH, "note": "The pure half is not a simulation target and is not claimed as enumerated."},
    "C05": {"text": "Decode determinism across order, wall clock, cache state and live-vs-isolated contexts is decided by "
                    "seeded search; the pure clauses are monitored on generated traffic.", "design_ref": "DESIGN.md 7/C05",
            "technique": _TECH, "note": "Index/array/range monitors use independent tables written in the engine."},
})
MANIFEST_TEXT["C11"] = {
    "text": "Seeded search over arrival patterns; every window of the recorded write history is checked against the stated "
            "allowances (O(n^2) windows per run), plus conservation and order.", "design_ref": "DESIGN.md 7/C11",
    "technique": _TECH, "note": "Real constants; virtual time makes 20-minute drains cost < 1 s."}
MANIFEST_TEXT["C10"] = {
    "text": "Seeded search over filter configurations x traffic classes on a real Gateway; a 6-line reference decides wanted/"
            "unwanted for receive and send, device creation is read from gwy.device_by_id.", "design_ref": "DESIGN.md 7/C10",
    "technique": _TECH, "note": "The reference was checked against _is_wanted_addrs on 90k random samples of the pinned tree (round 0)."}
MANIFEST_TEXT["C12"] = {
    "text": "Seeded search over controller configurations x reply-loss patterns; a scripted controller answers the real "
            "discovery pollers for up to 49 virtual hours; soundness/monotonicity sampled every 10 virtual minutes and "
            "bounded liveness after the faults stop.", "design_ref": "DESIGN.md 7/C12", "technique": _TECH,
    "note": "Few but deep runs (about 5-10 s each); the write gap knob is at the top of its legal range."}
MANIFEST_TEXT["C17"] = {
    "text": "The stateful clause (reassembly from reply packets in any order, with repeats and mixed versions) and the wire "
            "round trip through a scripted controller are simulated; the encode/decode identity is monitored on generated "
            "schedules.", "design_ref": "DESIGN.md 7/C17", "technique": _TECH,
    "note": "The controller's codec is an independent implementation of the documented zlib/struct layout."}
MANIFEST_TEXT["C18"] = {
    "text": "Seeded search over fault patterns on every exchange of concurrent schedule transfers; history oracle on results, "
            "versions and the per-system lock, plus a fault-free follow-up per zone.", "design_ref": "DESIGN.md 7/C18",
    "technique": _TECH, "note": "Versions are distinguishable because every switchpoint carries a version marker."}
MANIFEST_TEXT["C19"] = {
    "text": "Seeded histories through the whole stack against a scripted controller log used as the reference model; "
            "invariants after every step.", "design_ref": "DESIGN.md 7/C19", "technique": _TECH,
    "note": "The controller log is the reference; delivered = what the controller actually put on the air."}
MANIFEST_TEXT["C13"] = {
    "text": "Seeded search over packet histories (real logs + mutation) x interleaved view reads, snapshots and restores (incl. cancelled, "
            "concurrent and damaged-cache restores) on a live gateway; oracle = no view raises, the engine still receives and sends.",
    "design_ref": "DESIGN.md 7/C13", "technique": _TECH,
    "note": "Liveness is observed by a probe packet and a probe command after every snapshot/restore, not only by reading the pause flag."}
MANIFEST_TEXT["C15"] = {
    "text": "Seeded search over the same histories: the library's validator, a reload into a fresh gateway and a graph walk are the oracles, "
            "evaluated every 16 packets.", "design_ref": "DESIGN.md 7/C15", "technique": _TECH,
    "note": "Both quantifiers: schemas reached from histories (fed back into a fresh gateway) and generated schemas loaded as configuration."}
MANIFEST_TEXT["C16"] = {
    "text": "Crash/restart is simulated: at seeded prefixes of a live history only get_state()'s output survives, a fresh gateway is started "
            "from it (optionally after downtime) and its snapshot, a second restore and a restore into the original are compared.",
    "design_ref": "DESIGN.md 7/C16", "technique": _TECH,
    "note": "Restart uses the Home Assistant path: Gateway(port, **schema).start(cached_packets=...)."}
MANIFEST_TEXT["C14"] = {
    "text": "Seeded interleavings of generated stateful traffic (loss, duplication, foreign systems, RQ/W echoes) with wall-clock steps around "
            "every lifetime; a reference model updated at delivery is the oracle for values, an independent lifetime table for _expired.",
    "design_ref": "DESIGN.md 7/C14", "technique": _TECH,
    "note": "The model never calls the library's parsers: every value is chosen by the plan and unique per transmission."}
MANIFEST_TEXT["C20"] = {
    "text": "Two real gateways bind over a simulated ether with per-frame loss, repeats, delays around every wait, echoes and third-party "
            "binding traffic; history oracle on both ends' outcomes, tuples, timing, clean-up and a fault-free retry.",
    "design_ref": "DESIGN.md 7/C20", "technique": _TECH,
    "note": "All waits (0.8 s retry, 3 s, 5 s, 5.1 s, 10 s QoS) run on the virtual clock: a failed attempt costs milliseconds."}
NOT_APPLICABLE = {
    "C03": "pure function of constructor arguments (decode(build(args)) = args): no schedule, clock, fault, history or second "
           "party to simulate; exhaustive/argument-space enumeration is outside this technique (DESIGN.md 8)",
    "C04": "pure scalar codec inverses over finite enumerable domains: no nondeterminism for a simulator to control "
           "(DESIGN.md 8)",
}
