"""Scripted peers: the other parties on the radio.  Written from the protocol examples in the library's
comments and the corpus -- they never call the library's parsers or command constructors, so a peer and
the library cannot share a bug.

SimController: an evohome-like controller with a configuration (zones, DHW, appliance control), a sync
cycle, schedules (0006/0404), a fault log (0418) and the usual RQ->RP answers.
"""
from __future__ import annotations

import zlib
import struct

CLASS_CODE = {"radiator_valve": "08", "underfloor_heating": "09", "zone_valve": "0A", "mixing_valve": "0B",
              "electric_heat": "11"}
NULL_0418 = "000000B0000000000000000000007FFFFF7000000000"


def hexid(dev_id: str) -> str:
    t, n = dev_id.split(":")
    return f"{(int(t) << 18) + int(n):06X}"


class SimController:
    def __init__(self, hub, ctl_id: str, cfg: dict, plan=None) -> None:
        self.hub = hub
        self.loop = hub.loop
        self.id = ctl_id
        self.cfg = cfg  # {"zones": {idx: {"class","sensor","actuators"}}, "dhw": {...}|None, "app": id|None}
        self.plan = plan
        self.temps = {z: 0x07D0 + 10 * int(z, 16) for z in cfg.get("zones", {})}
        self.setpoints = {z: 0x0640 + 50 * int(z, 16) for z in cfg.get("zones", {})}
        self.sched: dict[str, list] = {}  # zone idx (or "HW") -> schedule (list of 7 day dicts)
        self.sched_ver = 5
        self.faultlog: list[dict] = []  # newest first
        self.rq_log: list[tuple[float, str]] = []
        self.reply_filter = None  # fn(request_line, reply_line, n) -> list[latency] | None (None = default 0.03)
        self.stored_frags: dict[str, dict[int, str]] = {}
        self.sync_task = None
        self.silent_codes: set[str] = set()
        self.n_replies = 0
        self.on_reply = None
        self.on_sched_change = None

    # -- outbound ------------------------------------------------------------------------
    def rp(self, dst: str, code: str, payload: str, verb: str = "RP") -> str:
        return f"{verb} --- {self.id} {dst} --:------ {code} {len(payload) // 2:03d} {payload}"

    def bcast(self, code: str, payload: str) -> str:
        return f" I --- {self.id} --:------ {self.id} {code} {len(payload) // 2:03d} {payload}"

    def send(self, frame: str, delay: float = 0.0) -> None:
        self.hub.broadcast(frame, delay)

    async def sync_cycle(self, period: float = 185.0, first: float = 2.0) -> None:
        import asyncio

        await asyncio.sleep(first)
        while True:
            self.announce_sync(period)
            await asyncio.sleep(period)

    def announce_sync(self, period: float = 185.0) -> None:
        zs = sorted(self.cfg.get("zones", {}))
        self.send(self.bcast("1F09", f"FF{int(period * 10):04X}"))
        if zs:
            self.send(self.bcast("2309", "".join(f"{z}{self.setpoints[z]:04X}" for z in zs)), 0.02)
            self.send(self.bcast("30C9", "".join(f"{z}{self.temps[z]:04X}" for z in zs)), 0.04)

    # -- inbound: a frame transmitted by a gateway ------------------------------------------
    def on_frame(self, ser, frame: bytes, nth: int) -> None:
        line = frame.decode("latin-1")
        verb = line[:2]
        if line[17:26] != self.id or verb not in ("RQ", " W"):
            return
        src = line[7:16]
        code = line[37:41]
        pl = line[46:]
        self.rq_log.append((self.loop.time(), line))
        if code in self.silent_codes:
            return
        rep = self.reply(verb, src, code, pl)
        if rep is None:
            return
        self.n_replies += 1
        lats = [0.03]
        if self.reply_filter is not None:
            lats = self.reply_filter(line, rep, self.n_replies)
        for lat in lats or []:
            self.send(rep, lat)
        if self.on_reply is not None:
            self.on_reply(line, rep, lats)

    def reply(self, verb: str, src: str, code: str, pl: str) -> str | None:
        z = pl[:2]
        zones = self.cfg.get("zones", {})
        if verb == " W":
            if code == "0404":
                return self._w_0404(src, pl)
            if code == "2309":
                if z in zones:
                    self.setpoints[z] = int(pl[2:6], 16)
                    return self.rp(src, code, pl, " I")
                return None
            if code == "2349":
                return self.rp(src, code, pl, " I")
            return None
        if code == "0005":
            return self.rp(src, code, f"00{pl[2:4]}{self._mask(pl[2:4]):04X}")
        if code == "000C":
            return self.rp(src, code, self._000c(pl[:2], pl[2:4]))
        if code == "0006":
            return self.rp(src, code, f"0005{self.sched_ver:04X}")
        if code == "0404":
            return self._rq_0404(src, pl)
        if code == "0418":
            i = int(pl[4:6], 16)
            if i < len(self.faultlog):
                return self.rp(src, code, self.entry_payload(i, self.faultlog[i]))
            return self.rp(src, code, NULL_0418)
        if code == "2E04":
            return self.rp(src, code, "00FFFFFFFFFFFF00")
        if code == "313F":
            return self.rp(src, code, "00FC0029D6050B07E7")
        if code == "0100":
            return self.rp(src, code, "00656EFFFF")
        if code == "1100":
            return self.rp(src, code, f"{z}0C040400007FFF01" if z == "FC" else "FC0C040400007FFF01")
        if code == "1F09":
            return self.rp(src, code, "000708")
        if code in ("10A0", "1F41", "1260"):
            if self.cfg.get("dhw") is None:
                return None
            if code == "10A0":
                return self.rp(src, code, "001388000A01F4")
            if code == "1F41":
                return self.rp(src, code, "000100FFFFFF")
            return self.rp(src, code, "00116D")
        if z not in zones:
            return None  # a real controller does not answer for a zone it does not have
        if code == "30C9":
            return self.rp(src, code, f"{z}{self.temps[z]:04X}")
        if code == "2309":
            return self.rp(src, code, f"{z}{self.setpoints[z]:04X}")
        if code == "2349":
            return self.rp(src, code, f"{z}{self.setpoints[z]:04X}00FFFFFF")
        if code == "000A":
            return self.rp(src, code, f"{z}1001F40DAC")
        if code == "0004":
            name = f"Zone {z}".encode().hex().upper()
            return self.rp(src, code, f"{z}00{name}{'00' * (20 - len(name) // 2)}")
        if code == "12B0":
            return self.rp(src, code, f"{z}0000")
        if code == "1030" and zones[z]["class"] == "mixing_valve":
            return self.rp(src, code, f"{z}C80137C9010FCA0196CB010FCC0101")
        return None

    # -- configuration answers ------------------------------------------------------------
    def _mask(self, zt: str) -> int:
        m = 0
        for z, zc in self.cfg.get("zones", {}).items():
            if zt == "04" or CLASS_CODE.get(zc["class"]) == zt:
                m |= 1 << int(z, 16)
        if zt == "00":
            m = 0
            for z in self.cfg.get("zones", {}):
                m |= 1 << int(z, 16)
        if zt == "0D" and self.cfg.get("dhw") is not None:
            m = 1
        # wire order: first byte = zones 0-7, second = zones 8-15
        return ((m & 0xFF) << 8) | (m >> 8)

    def _000c(self, idx: str, role: str) -> str:
        devs: list[str] = []
        dhw = self.cfg.get("dhw") or {}
        if role == "0F":
            devs = [self.cfg["app"]] if (idx == "00" and self.cfg.get("app")) else []
        elif role == "0D":
            devs = [dhw["sensor"]] if (idx == "00" and dhw.get("sensor")) else []
        elif role == "0E":
            key = "dhw_valve" if idx == "00" else "htg_valve"
            devs = [dhw[key]] if (idx in ("00", "01") and dhw.get(key)) else []
        elif idx in self.cfg.get("zones", {}):
            zc = self.cfg["zones"][idx]
            if role == "04":
                devs = [zc["sensor"]] if zc.get("sensor") else []
            elif role == "00" or role == CLASS_CODE.get(zc["class"]):
                devs = list(zc.get("actuators", []))
        if not devs:
            return f"{idx}{role}7FFFFFFF"
        return "".join(f"{idx}{role}00{hexid(d)}" for d in devs)

    # -- schedules (0404) -------------------------------------------------------------------
    def set_schedule(self, zone: str, schedule: list, bump: bool = True) -> None:
        self.sched[zone] = schedule
        if bump:
            self.sched_ver += 2

    def frags_of(self, zone: str) -> list[str]:
        s = self.sched.get(zone)
        if not s:
            return []
        return pack_schedule(zone, s)

    def _rq_0404(self, src: str, pl: str) -> str | None:
        z, kind, frag = pl[:2], pl[2:4], int(pl[10:12], 16)
        key = "HW" if kind == "23" else z
        frs = self.frags_of(key)
        if not frs:  # the documented 'no schedule' reply (7 bytes)
            return self.rp(src, "0404", f"{z}{kind}000800{frag:02X}FF")
        if not 1 <= frag <= len(frs):
            return None
        f = frs[frag - 1]
        return self.rp(src, "0404", f"{z}{kind}0008{len(f) // 2:02X}{frag:02X}{len(frs):02X}{f}")

    def _w_0404(self, src: str, pl: str) -> str | None:
        z, kind = pl[:2], pl[2:4]
        n, frag, total = int(pl[8:10], 16), int(pl[10:12], 16), int(pl[12:14], 16)
        key = "HW" if kind == "23" else z
        st = self.stored_frags.setdefault(key, {})
        if frag == 1:
            st.clear()
        st[frag] = pl[14:14 + 2 * n]
        if total and len(st) == total and all(i in st for i in range(1, total + 1)):
            try:
                self.sched[key] = unpack_schedule([st[i] for i in range(1, total + 1)])
                self.sched_ver += 2
                if self.on_sched_change is not None:
                    self.on_sched_change(key, self.sched[key])
            except Exception:  # noqa
                pass
        # the real acknowledgement echoes the fragment's length byte, and carries no data (see the 0404 parser's comments)
        return self.rp(src, "0404", f"{z}{kind}0008{n:02X}{frag:02X}{total:02X}", " I")

    # -- fault log (0418) ---------------------------------------------------------------------
    def entry_payload(self, idx: int, e: dict) -> str:
        """22-byte fault log entry, from the layout documented in the 0418 parser's comments."""
        state = {"fault": "00", "restore": "40", "unknown_c0": "C0"}[e["state"]]
        ts = pack_ts(e["dt"])
        dev = hexid(e["dev"])
        return f"00{state}{idx:02X}B0{e.get('fault', '04')}{e.get('zone', '04')}{e.get('class', '04')}0000{ts}FFFF7000{dev}"

    def new_fault(self, e: dict, announce: bool = True, delay: float = 0.0) -> None:
        self.faultlog.insert(0, e)
        del self.faultlog[64:]
        if announce:
            self.send(self.bcast("0418", self.entry_payload(0, e)), delay)


def pack_ts(d) -> str:
    """The 48-bit packed timestamp of a fault-log entry (layout as in the corpus, e.g. ...00CD17B5AE7F...):
    month<<36 | day<<31 | (year-2000)<<24 | hour<<19 | minute<<13 | second<<7 | 0x7F."""
    v = (d.month << 36) | (d.day << 31) | ((d.year - 2000) << 24) | (d.hour << 19) | (d.minute << 13) | (d.second << 7) | 0x7F
    return f"{v:012X}"


def ts_str(d) -> str:
    return d.strftime("%y-%m-%dT%H:%M:%S")


# -- schedule wire format (zlib-compressed 20-byte switchpoint records), from the schedule module's docstring ----
def pack_schedule(zone: str, schedule: list) -> list[str]:
    zi = 0 if zone == "HW" else int(zone, 16)
    raw = b""
    for day in schedule:
        for sp in day["switchpoints"]:
            h, m = sp["time_of_day"].split(":")
            mins = int(h) * 60 + int(m)
            if "heat_setpoint" in sp:
                val = int(round(sp["heat_setpoint"] * 100))
            else:
                val = 1 if sp["enabled"] else 0
            raw += struct.pack("<xxxxBxxxBxxxHxxHxx", zi, day["day_of_week"], mins, val)
    c = zlib.compressobj(level=9, wbits=14)
    blob = (c.compress(raw) + c.flush()).hex().upper()
    return [blob[i:i + 82] for i in range(0, len(blob), 82)]


def unpack_schedule(frags: list[str]) -> list:
    raw = zlib.decompress(bytes.fromhex("".join(frags)))
    days: dict[int, list] = {}
    zi = 0
    for i in range(0, len(raw), 20):
        zi, dow, mins, val, _ = struct.unpack_from("<xxxxBxxxBxxxHxxHH", raw, i)
        days.setdefault(dow, []).append((mins, val))
    def sp(m, v):
        base = {"time_of_day": f"{m // 60:02d}:{m % 60:02d}"}
        return {**base, "enabled": bool(v)} if v in (0, 1) else {**base, "heat_setpoint": v / 100}

    return [{"day_of_week": d, "switchpoints": [sp(m, v) for m, v in sps]} for d, sps in sorted(days.items())]
