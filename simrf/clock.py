"""Virtual wall clock: every clock the library reads goes through here.

wall(now) = EPOCH + (loop.time() - T0) * (1 + drift) [+ offset], strictly increasing by
at least 1 us per reading (as a Linux clock is, and so that queue entries that embed
dt.now() never tie).  `time.time`, `time.time_ns`, `time.perf_counter`,
`time.monotonic` are replaced process-wide; `<module>.dt` is replaced in every
ramses_* module (they all do `from datetime import datetime as dt`).
"""
from __future__ import annotations

import datetime as _dt
import os
import sys
import time as _time

from .vloop import T0

os.environ["TZ"] = "UTC"
_time.tzset()

EPOCH = _dt.datetime(2024, 1, 10, 12, 0, 0)
_UNIX0 = _dt.datetime(1970, 1, 1)

REAL_TIME = _time.time
REAL_PERF = _time.perf_counter
REAL_MONO = _time.monotonic

_state = {"loop": None, "drift": 0.0, "offset": 0.0, "last_us": 0}
_installed = False


def set_loop(loop, drift: float = 0.0, offset: float = 0.0) -> None:
    _state["loop"] = loop
    _state["drift"] = drift
    _state["offset"] = offset
    _state["last_us"] = 0


def jump(seconds: float) -> None:
    """Step the wall clock relative to loop time.  A negative step (end of DST on a host that runs on local time, an NTP
    correction) also moves the 'strictly increasing' floor back, so that the clock really reads earlier afterwards."""
    _state["offset"] += seconds
    if seconds < 0:
        _state["last_us"] += int(round(seconds * 1e6))


def _loop_time() -> float:
    loop = _state["loop"]
    return loop.time() if loop is not None else T0


def now_us() -> int:
    """Microseconds since EPOCH on the virtual wall clock, strictly increasing."""
    base = int(round(((_loop_time() - T0) * (1.0 + _state["drift"]) + _state["offset"]) * 1e6))
    last = _state["last_us"]
    us = base if base > last else last + 1
    _state["last_us"] = us
    return us


def peek_us() -> int:
    """Current wall clock without ticking (for the harness's own logging)."""
    base = int(round(((_loop_time() - T0) * (1.0 + _state["drift"]) + _state["offset"]) * 1e6))
    return max(base, _state["last_us"])


class VDateTime(_dt.datetime):
    @classmethod
    def now(cls, tz=None):
        d = EPOCH + _dt.timedelta(microseconds=now_us())
        r = cls(d.year, d.month, d.day, d.hour, d.minute, d.second, d.microsecond)
        if tz is not None:
            r = r.replace(tzinfo=_dt.timezone.utc).astimezone(tz)
        return r

    @classmethod
    def utcnow(cls):
        return cls.now()

    @classmethod
    def today(cls):
        return cls.now()


def wall_of(loop_t: float) -> _dt.datetime:
    """Harness helper: the (un-ticked) wall time at loop time t."""
    return EPOCH + _dt.timedelta(seconds=(loop_t - T0) * (1.0 + _state["drift"]) + _state["offset"])


def v_time() -> float:
    return (EPOCH - _UNIX0).total_seconds() + now_us() / 1e6


def v_time_ns() -> int:
    return int((EPOCH - _UNIX0).total_seconds()) * 10**9 + now_us() * 1000


def v_perf() -> float:
    return _loop_time()


def install() -> None:
    """Patch the process-wide clocks. Idempotent. Call before importing ramses_tx."""
    global _installed
    if _installed:
        return
    _time.time = v_time
    _time.time_ns = v_time_ns
    _time.perf_counter = v_perf
    _time.monotonic = v_perf
    _installed = True


def patch_modules() -> list[str]:
    """Point every ramses_* module's `dt` at VDateTime (call after importing them)."""
    done = []
    for name, mod in list(sys.modules.items()):
        if not name.startswith(("ramses_tx", "ramses_rf", "ramses_cli")) or mod is None:
            continue
        if getattr(mod, "dt", None) is _dt.datetime:
            mod.dt = VDateTime
            done.append(name)
        if getattr(mod, "perf_counter", None) is not None and getattr(mod, "perf_counter") is not v_perf:
            mod.perf_counter = v_perf
    return done
