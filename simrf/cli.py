"""./check entry point (see /verif/check)."""
from __future__ import annotations

import argparse
import json
import os
import sys

VERIF = os.path.dirname(os.path.dirname(os.path.abspath(__file__)))


def load_known() -> dict:
    try:
        return json.load(open(os.path.join(VERIF, "known_findings.json")))
    except FileNotFoundError:
        return {"findings": [], "fixed": []}


def known_match(known: dict, prop: str, sig: str):
    for f in known.get("findings", []):
        if f.get("status", "open") != "open" or f["property"] != prop:
            continue
        pat = f["signature"]
        if sig == pat or (pat.endswith("*") and sig.startswith(pat[:-1])):
            return f
    return None


def write_evidence(prop: str, tier: str, seed: int, agg: dict, wall: float, n_viol: int, known_hit: list,
                   n_planned: int) -> None:
    from .registry import CHECKS

    if os.environ.get("SIMRF_NO_EVIDENCE"):  # mutant sweeps against a scratch tree must not rewrite evidence
        return
    c = CHECKS[prop]
    runs = max(1, agg["runs"])
    ev = {
        "property_id": prop,
        "tier": tier,
        "seed": seed,
        "level": "exploration",
        "coverage": {
            "evaluations": agg["runs"],
            "distinct_nontrivial": len(agg["nontrivial_abstract"]),
            "distinct_abstract_traces": len(agg["abstract"]),
            "rule": c["rule"],
            "samples": agg["samples"][:4] or [{"note": "no sample recorded"}],
            "runs_planned": n_planned,
            "runs_skipped_for_budget": agg["skipped"],
            "runs_by_scenario": agg["scen"],
            "runs_per_hour": int(agg["runs"] / max(wall, 1e-6) * 3600),
            "seeds": {"VERIF_SEED": seed, "run_index_first": 0, "run_index_last": max(0, n_planned - 1),
                      "identity": "(VERIF_SEED, engine, scenario, run index) -> sha256 -> PRNG per decision key"},
            "simulated_seconds_total": round(agg["sim_s"], 1),
            "loop_steps_total": agg["steps"],
            "fault_counts": dict(sorted(agg["faults"].items())),
            "probes": dict(sorted(agg["probes"].items())),
            "probes_never_hit": [p for p in c.get("expected_probes", []) if not agg["probes"].get(p)],
            "components": {"real": c["real"], "stub": c["stub"]},
            "known_findings_hit": known_hit,
            "violations_of_other_properties_seen": dict(sorted(agg["other_props"].items())),
        },
        "assumptions": c["assumptions"],
        "wall_s": round(wall, 2),
        "violations": n_viol,
    }
    os.makedirs(os.path.join(VERIF, "evidence"), exist_ok=True)
    with open(os.path.join(VERIF, "evidence", f"{prop}.json"), "w") as f:
        json.dump(ev, f, indent=1, default=str)


def cmd_check(prop: str, tier: str, seed: int) -> int:
    from . import clock, runner
    from .registry import CHECKS, specs_for

    if prop not in CHECKS:
        print(f"HARNESS-ERROR unknown or unclaimed property {prop}")
        return 3
    t0 = clock.REAL_TIME()
    specs = specs_for(prop, tier)
    bq, bt = CHECKS[prop].get("budget", (100, 1500))
    budget = float(os.environ.get("SIMRF_BUDGET_S", bq if tier == "quick" else bt))
    print(f"simrf check property={prop} tier={tier} VERIF_SEED={seed} runs={len(specs)} budget_s={budget:.0f} "
          f"workers={runner.NPROC}", flush=True)
    agg = runner.run_batch(prop, specs, seed, budget)
    known = load_known()
    rc = 0
    n_viol = 0
    known_hit = []
    if agg["harness_errors"]:
        for h in agg["harness_errors"][:5]:
            print("HARNESS-ERROR", h[-1500:])
        rc = 3
    shown = 0
    for sig in sorted(agg["violations"], key=lambda s: agg["violations"][s]["plan"]["run"]):
        ent = agg["violations"][sig]
        kf = known_match(known, prop, sig)
        if kf is not None:
            print(f"KNOWN-FINDING: property={prop} {kf['id']} {sig} x{ent['count']}: {kf['what']}")
            known_hit.append({"id": kf["id"], "signature": sig, "count": ent["count"]})
            continue
        n_viol += 1
        if shown >= 4:
            print(f"(further distinct signature not minimised: {sig} x{ent['count']})")
            rc = max(rc, 1)
            continue
        shown += 1
        path, ok = minimise_and_save(prop, sig, ent)
        if ok:
            print(f"VIOLATION property={prop} replay={path}")
            print(f"  signature={sig} occurrences={ent['count']} first_run={ent['plan']['scenario']}/{ent['plan']['run']}")
            print(f"  {ent['text'][:600]}")
            rc = max(rc, 1)
        else:
            print(f"HARNESS-ERROR nondeterministic replay for {sig} (plan kept at {path})")
            rc = 3
    wall = clock.REAL_TIME() - t0
    write_evidence(prop, tier, seed, agg, wall, n_viol, known_hit, len(specs))
    print(f"done property={prop} runs={agg['runs']} skipped={agg['skipped']} distinct_traces={len(agg['abstract'])} "
          f"nontrivial={len(agg['nontrivial_abstract'])} sim_s={agg['sim_s']:.0f} wall_s={wall:.1f} "
          f"violations={n_viol} known={len(known_hit)} exit={rc}", flush=True)
    return rc


def minimise_and_save(prop: str, sig: str, ent: dict):
    from . import runner

    plan = ent["plan"]
    r1 = runner.replay(plan)
    if not runner.has_sig(r1, sig):
        path = runner.write_replay(prop, sig, plan, r1, ent["text"])
        return path, False
    small, n = runner.shrink(plan, sig)
    r2 = runner.replay(small)
    if not runner.has_sig(r2, sig):
        small, r2 = plan, r1
    text = next(v["text"] for v in r2["violations"] if v["sig"] == sig)
    path = runner.write_replay(prop, sig, small, r2, text)
    code, out = runner.fresh_replay(prop, path)
    if code == 1 and f"signature={sig}" in out:
        return path, True
    # fall back to the unshrunk plan
    path = runner.write_replay(prop, sig, plan, r1, ent["text"])
    code, out = runner.fresh_replay(prop, path)
    return path, (code == 1 and f"signature={sig}" in out)


def cmd_replay(prop: str, path: str) -> int:
    from . import runner

    doc = json.load(open(path))
    plan = doc["plan"]
    want = doc.get("signature")
    res = runner.replay(plan)
    if res["harness_error"]:
        print("HARNESS-ERROR", res["harness_error"][-1500:])
        return 3
    hits = [v for v in res["violations"] if v["prop"] == prop and (want is None or v["sig"] == want)]
    if hits:
        print(f"VIOLATION property={prop} replay={path}")
        print(f"  signature={hits[0]['sig']} trace_digest={res['digest']}")
        print(f"  {hits[0]['text'][:800]}")
        return 1
    print(f"replay of {path}: no violation of {prop}" + (f" with signature {want}" if want else "")
          + f" (trace_digest={res['digest']}; other: {[v['sig'] for v in res['violations']][:5]})")
    return 0


def main() -> int:
    ap = argparse.ArgumentParser(prog="check")
    ap.add_argument("prop", nargs="?")
    ap.add_argument("--tier", default=os.environ.get("VERIF_TIER", "quick"), choices=["quick", "thorough"])
    ap.add_argument("--replay")
    ap.add_argument("--setup", action="store_true")
    ap.add_argument("--selftest", nargs="?", const="quick")
    ap.add_argument("--mutants", action="store_true")
    a = ap.parse_args()
    seed = int(os.environ.get("VERIF_SEED", "0") or 0)
    if a.setup:
        from . import selftest

        return selftest.setup()
    if a.selftest:
        from . import selftest

        return selftest.run(a.selftest, seed)
    if a.mutants:  # sensitivity: every kept seeded change against the check of the property it breaks (scratch worktrees only)
        import subprocess

        return subprocess.call([os.path.join(VERIF, "tools", "mutant_sweep.py")] + ([a.prop] if a.prop else []))
    if a.prop is None:
        ap.error("property id required")
    if a.replay:
        return cmd_replay(a.prop, a.replay)
    return cmd_check(a.prop, a.tier, seed)


if __name__ == "__main__":
    sys.exit(main())
