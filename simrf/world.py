"""One world per run: imports the library under the virtual clocks and resets every piece
of process-global mutable state between runs, so a run is a pure function of its plan.
"""
from __future__ import annotations

import gc
import logging
import os
import sys

from . import clock

clock.install()  # MUST precede the first import of ramses_tx.transport

REPO_SRC = os.environ.get("SIMRF_REPO_SRC", "/repo/src")
if REPO_SRC not in sys.path:
    sys.path.insert(0, REPO_SRC)

import ramses_tx  # noqa: E402
import ramses_tx.address as A  # noqa: E402
import ramses_tx.message as M  # noqa: E402
import ramses_tx.protocol as P  # noqa: E402
import ramses_tx.transport as T  # noqa: E402
import ramses_rf  # noqa: E402
import ramses_rf.binding_fsm as B  # noqa: E402
import ramses_rf.entity_base as EB  # noqa: E402

assert ramses_tx.__file__.startswith(REPO_SRC), (ramses_tx.__file__, REPO_SRC)

_ORIG_FACTORY = logging.getLogRecordFactory()
_ORIG_SERIAL_FOR_URL = T.serial_for_url
_ORIG_IS_HGI80 = T.is_hgi80
_ORIG_MIN_GAP = T.MIN_INTER_WRITE_GAP
_ORIG_DBG_DUTY = T._DBG_DISABLE_DUTY_CYCLE_LIMIT
_ORIG_MQTT_CLIENT = T.mqtt.Client
_ORIG_MAX_CYCLE = getattr(EB._Discovery, "MAX_CYCLE_SECS", None)

_QOS_DEFAULTS = {
    "DEFAULT_QOS": (P.DEFAULT_QOS, dict(P.DEFAULT_QOS.__dict__)),
    "BINDING_QOS": (B.BINDING_QOS, dict(B.BINDING_QOS.__dict__)),
}

_CACHED = []
for _m in (A, M):
    for _n in dir(_m):
        _f = getattr(_m, _n, None)
        if callable(_f) and hasattr(_f, "cache_clear"):
            _CACHED.append(_f)
try:
    import ramses_tx.helpers as H  # noqa: E402
    import ramses_tx.frame as FR  # noqa: E402
    import ramses_tx.packet as PK  # noqa: E402
    import ramses_tx.parsers as PA  # noqa: E402

    for _m in (H, FR, PK, PA):
        for _n in dir(_m):
            _f = getattr(_m, _n, None)
            if callable(_f) and hasattr(_f, "cache_clear") and _f not in _CACHED:
                _CACHED.append(_f)
except Exception:  # pragma: no cover
    pass


class SimLock:
    """threading.Lock stand-in.  The library takes these locks on the event-loop thread; a
    blocking acquire of a held lock would freeze the process, so it is turned into an
    observable SimWedge instead of a real dead-lock."""

    def __init__(self) -> None:
        self._held = False
        self._by = ""

    def acquire(self, blocking: bool = True, timeout: float = -1) -> bool:
        import traceback

        if not self._held:
            self._held = True
            fr = traceback.extract_stack(limit=2)[0]
            self._by = f"{os.path.basename(fr.filename)[:-3]}.{fr.name}"
            return True
        if not blocking or (timeout is not None and timeout >= 0):
            return False
        from . import vloop

        fr = traceback.extract_stack(limit=2)[0]
        vloop.WEDGE[0] = f"lock@{os.path.basename(fr.filename)[:-3]}.{fr.name}(held since {self._by})"
        raise vloop.SimWedge(vloop.WEDGE[0])

    def release(self) -> None:
        if not self._held:
            raise RuntimeError("release unlocked lock")
        self._held = False

    def locked(self) -> bool:
        return self._held

    def __enter__(self):
        self.acquire()
        return self

    def __exit__(self, *a):
        self.release()


class SeededRandom:
    """Stands in for the `random` module inside ramses_rf.entity_base."""

    def __init__(self) -> None:
        import random

        self._r = random.Random(0)

    def seed(self, s) -> None:
        self._r.seed(s)

    def uniform(self, a, b):
        return self._r.uniform(a, b)

    def random(self):
        return self._r.random()

    def choice(self, seq):
        return self._r.choice(seq)


RANDOM = SeededRandom()
EB.random = RANDOM

import ramses_tx.protocol_fsm as FSM  # noqa: E402
import ramses_tx.gateway as TG  # noqa: E402
import ramses_rf.system.heat as SH  # noqa: E402

for _m in (FSM, TG, SH):
    assert hasattr(_m, "Lock"), _m
    _m.Lock = SimLock


def _closure_cells(fn) -> dict:
    out = {}
    seen = set()
    while fn is not None and id(fn) not in seen:
        seen.add(id(fn))
        code = getattr(fn, "__code__", None)
        if code is not None and fn.__closure__:
            for name, cell in zip(code.co_freevars, fn.__closure__):
                out.setdefault(name, cell)
        fn = getattr(fn, "__wrapped__", None)
    return out


def limiter_cells() -> dict:
    return _closure_cells(T.PortTransport.write_frame)


def all_limiter_cells() -> list[dict]:
    """Every closure in the transport module that carries the duty-cycle / sync-avoidance state, wherever the decorators
    happen to be applied (so that a refactoring of write_frame does not leak state from one run into the next)."""
    import inspect

    found: list[dict] = []
    seen: set[int] = set()
    for _n, obj in list(vars(T).items()):
        members = [obj] if inspect.isfunction(obj) else (list(vars(obj).values()) if inspect.isclass(obj) else [])
        for fn in members:
            fn = getattr(fn, "__func__", fn)
            if not callable(fn) or id(fn) in seen:
                continue
            seen.add(id(fn))
            cells = _closure_cells(fn)
            if "bits_in_bucket" in cells or "times_0" in cells:
                found.append(cells)
    return found


def silence_logging() -> None:
    """Silence by level, never logging.disable(): the packet log goes through logging."""
    root = logging.getLogger()
    for h in list(root.handlers):
        root.removeHandler(h)
    root.addHandler(logging.NullHandler())
    root.setLevel(logging.CRITICAL)
    for name in list(logging.root.manager.loggerDict):
        if name.startswith(("ramses_tx", "ramses_rf", "asyncio")):
            lg = logging.getLogger(name)
            if name == PK.PKT_LOGGER.name:
                continue
            lg.setLevel(logging.NOTSET)
            for h in list(lg.handlers):
                lg.removeHandler(h)
    logging.getLogger("asyncio").setLevel(logging.CRITICAL)


def reset_world(loop=None, *, drift: float = 0.0, seed: int = 0) -> None:
    """Bring every process-global back to its import-time value (at virtual epoch)."""
    clock.set_loop(loop, drift=drift)
    clock.patch_modules()
    from . import vloop as _vl

    _vl.WEDGE[0] = None

    # transmit limiter closure + sync-cycle tracker
    for cells in all_limiter_cells() or [limiter_cells()]:
        if "bits_in_bucket" in cells:
            cells["bits_in_bucket"].cell_contents = 38400 * T.MAX_DUTY_CYCLE_RATE * T.DUTY_CYCLE_DURATION
            cells["last_time_bit_added"].cell_contents = clock.v_perf()
        if "times_0" in cells:
            cells["times_0"].cell_contents.clear()
    T._global_sync_cycles.clear()
    T._global_sync_cycles = type(T._global_sync_cycles)(maxlen=T._MAX_TRACKED_SYNCS)
    T.MIN_INTER_WRITE_GAP = _ORIG_MIN_GAP
    T._DBG_DISABLE_DUTY_CYCLE_LIMIT = _ORIG_DBG_DUTY
    T.mqtt.Client = _ORIG_MQTT_CLIENT
    T.is_hgi80 = lambda name: False  # the port type probe; engines override per run
    T.serial_for_url = _ORIG_SERIAL_FOR_URL
    if _ORIG_MAX_CYCLE is not None:
        EB._Discovery.MAX_CYCLE_SECS = _ORIG_MAX_CYCLE

    for f in _CACHED:
        f.cache_clear()

    for obj, attrs in _QOS_DEFAULTS.values():
        obj.__dict__.clear()
        obj.__dict__.update(attrs)

    # logging: packet logger handlers, record factory
    for h in list(PK.PKT_LOGGER.handlers):
        PK.PKT_LOGGER.removeHandler(h)
        try:
            h.close()
        except Exception:  # pragma: no cover
            pass
    PK.PKT_LOGGER.setLevel(logging.CRITICAL)
    PK.PKT_LOGGER.propagate = False
    logging.setLogRecordFactory(_ORIG_FACTORY)
    silence_logging()

    RANDOM.seed(seed)
    from . import rf

    rf.reset()
    gc.collect()
