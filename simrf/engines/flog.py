"""Engine `flog` (C19): the gateway's view of a controller's fault log, through the whole stack
(SimController <-> FakeSerial <-> PortTransport/QoS <-> dispatcher <-> Logbook/FaultLog)."""
from __future__ import annotations

import asyncio
import datetime as _dt
import gc

from .. import world  # noqa: F401
from ..peers import SimController, ts_str
from ..runner import exc_sig

import ramses_tx.transport as T
from ramses_rf import Gateway

GID = "18:006402"
CTL = "01:145038"
OTHER = "30:111111"


def generate(plan) -> None:
    r = plan.rng("gen")
    k = plan.d["knobs"]
    k["drift"] = 0.0
    k["fault_free"] = r.random() < 0.15
    ff = k["fault_free"]
    k["p_ann_lost"] = 0.0 if ff else r.choice([0.0, 0.2, 0.5])
    k["p_ann_dup"] = 0.0 if ff else r.choice([0.0, 0.2])
    k["p_rp_lost"] = 0.0 if ff else r.choice([0.0, 0.1, 0.3])
    k["preload"] = r.choice([0, 0, 1, 3, 8, 20, 64, 70])
    k["deep_first"] = k["preload"] >= 64 and r.random() < 0.5  # learn the whole (full) log first
    ops = plan.d["ops"]
    if k["deep_first"]:
        ops.append({"op": "readthrough", "n": 64})
    rb = plan.rng("gen/clock")  # (own stream) the host's wall clock is stepped back: end of DST (the library keeps naive local time), NTP
    p_back = 0.0 if ff else rb.choice([0.0, 0.0, 0.0, 0.08])
    for _ in range(r.randrange(3, 26)):
        if p_back and rb.random() < p_back:
            ops.append({"op": "clock_back", "s": rb.choice([2, 90, 3600])})
        x = r.random()
        if x < 0.35:
            ops.append({"op": "new", "gap": r.randrange(1, 5000), "state": r.choice(["fault", "restore"]),
                        "dev": f"04:{r.randrange(1, 9):06d}"})
        elif x < 0.55:
            ops.append({"op": "single", "idx": r.choice([0, 0, 1, 2, 3, 5, r.randrange(0, 66)])})
        elif x < 0.8:
            ops.append({"op": "readthrough", "n": r.choice([1, 2, 3, 6, 10, 64])})
        else:
            ops.append({"op": "get", "start": r.choice([0, 0, 1, 2, 4]), "limit": r.choice([1, 3, 6])})


async def run(ctx) -> None:
    plan, loop, hub = ctx.plan, ctx.loop, ctx.hub
    k = plan.knob
    T.serial_for_url = hub.serial_for_url
    ser = hub.add_port("/dev/sim0", GID)
    ctl = SimController(hub, CTL, {"zones": {"00": {"class": "radiator_valve", "sensor": None, "actuators": []}}, "dhw": None,
                                   "app": None}, plan)
    hub.peers.append(ctl)
    clk = [_dt.datetime(2023, 1, 1, 0, 0, 0)]
    r0 = plan.rng("preload")

    def mk(state, dev, gap):
        clk[0] += _dt.timedelta(seconds=gap)
        return {"dt": clk[0], "state": state, "dev": dev, "ts": ts_str(clk[0])}

    for _ in range(k("preload", 0)):
        ctl.faultlog.insert(0, mk(r0.choice(["fault", "restore"]), f"04:{r0.randrange(1, 9):06d}", r0.randrange(1, 5000)))
    del ctl.faultlog[64:]
    delivered: set[str] = set()
    quiet = [False]
    changed_during = [0]

    def reply_filter(rq_line, rep, n):
        if rep[37:41] == "0418":
            if not quiet[0] and plan.decide(f"rp/{n}", lambda rr: rr.random() < k("p_rp_lost", 0.0), False):
                hub.count("reply_lost")
                return []
            if rep[46 + 18:46 + 30] != "00000000007F" and len(rep) > 80:
                i = int(rep[50:52], 16)
                if i < len(ctl.faultlog):
                    delivered.add(ctl.faultlog[i]["ts"])
        return [0.03]

    ctl.reply_filter = reply_filter
    gwy = Gateway("/dev/sim0", config={"disable_discovery": True, "enforce_known_list": False},
                  **{CTL: {"zones": {"00": {"class": "radiator_valve"}}}}, main_tcs=CTL)
    await gwy.start()
    tcs = gwy.tcs
    fl = tcs._faultlog

    def view():
        return {i: e.timestamp for i, e in fl.faultlog.items()}

    def check(where: str) -> dict | None:
        try:
            v = view()
            _ = (tcs.latest_event, tcs.latest_fault, tcs.active_faults, fl.latest_event, fl.latest_fault, fl.active_faults)
            _ = tcs.status
        except Exception as err:  # noqa
            ctx.violate("C19", "view_raised", exc_sig(err), f"{where}: reading the fault log view raised {type(err).__name__}: {err}")
            return None
        items = sorted(v.items())
        tss = [t for _, t in items]
        if len(set(tss)) != len(tss):
            d = next(t for t in tss if tss.count(t) > 1)
            ctx.violate("C19", "duplicate", "", f"{where}: entry {d} appears at positions {[i for i, t in items if t == d]}; view={items[:10]}")
        elif any(a <= b for a, b in zip(tss, tss[1:])):
            ctx.violate("C19", "order", "", f"{where}: not newest-first: {items[:12]}")
        if items and items[-1][0] > 63:
            ctx.violate("C19", "position_beyond_log", "", f"{where}: the view has an entry at position {items[-1][0]}; a controller's log has "
                        f"positions 0..63: {items[-3:]}")
        if not set(tss) <= delivered:
            ctx.violate("C19", "phantom", "", f"{where}: {sorted(set(tss) - delivered)[:3]} was never reported by the controller")
        return v

    n_steps = 0
    for si, o in enumerate(plan.ops):
        where = f"step {si} {o}"
        kind = o["op"]
        if kind == "new":
            e = mk(o["state"], o["dev"], o["gap"])
            mode = plan.decide(f"ann/{si}", lambda rr: "lost" if rr.random() < k("p_ann_lost", 0.0)
                               else ("dup" if rr.random() < k("p_ann_dup", 0.0) else "ok"), "ok")
            try:
                before = view()
            except Exception:  # noqa
                before = None
            n_rp0 = sum(1 for (_t, _n, d) in hub.rx_log if b" RP " in d[:10] and b" 0418 " in d)
            ctl.new_fault(e, announce=(mode != "lost"))
            if mode == "lost":
                hub.count("announce_lost")
            else:
                delivered.add(e["ts"])
                if mode == "dup":
                    hub.count("announce_dup")
                    ctl.send(ctl.bcast("0418", ctl.entry_payload(0, e)), 0.04)
            await asyncio.sleep(0.3)
            after = check(where)
            n_rp1 = sum(1 for (_t, _n, d) in hub.rx_log if b" RP " in d[:10] and b" 0418 " in d)
            if n_rp1 != n_rp0:
                ctx.probe("straggler_reply_during_announcement")  # more information than the announcement arrived: not judged
            elif mode != "lost" and before is not None and after is not None:
                bad = [(i, t) for i, t in before.items() if i + 1 <= 0x3E and after.get(i + 1) != t and t != e["ts"]]
                if bad:
                    pos0 = "pos0_known" if 0 in before else "pos0_unknown"
                    ctx.violate("C19", "not_pushed_down", pos0, f"{where}: after the delivered announcement of {e['ts']}, known entries "
                                f"{bad[:3]} are not one position lower; before={sorted(before.items())[:8]} after={sorted(after.items())[:8]}")
            ctx.ab(f"n{mode[0]}")
        elif kind == "clock_back":
            from .. import clock

            clock.jump(-float(o["s"]))
            hub.count("clock_step_back")
            await asyncio.sleep(0.05)
            check(where)
            ctx.ab("cb")
        elif kind == "single":
            i = o["idx"]
            rq = f"RQ --- {OTHER} {CTL} --:------ 0418 003 0000{i:02X}"
            if i < len(ctl.faultlog):
                rep = ctl.rp(OTHER, "0418", ctl.entry_payload(i, ctl.faultlog[i]))
                delivered.add(ctl.faultlog[i]["ts"])
            else:
                rep = ctl.rp(OTHER, "0418", "000000B0000000000000000000007FFFFF7000000000")
            hub.rx_line(ser, rq, 0.0)
            hub.rx_line(ser, rep, 0.03)
            await asyncio.sleep(0.3)
            check(where)
            ctx.ab(f"s{min(i, 9)}")
        elif kind in ("readthrough", "get"):
            start, limit = (0, o["n"]) if kind == "readthrough" else (o["start"], o["limit"])
            if kind == "readthrough":
                quiet[0] = True
            log_before = [e["ts"] for e in ctl.faultlog]
            try:
                await asyncio.wait_for(tcs.get_faultlog(start=start, limit=limit), 64 * 25)
            except Exception as err:  # noqa
                ctx.violate("C19", "get_raised", exc_sig(err), f"{where}: get_faultlog raised {type(err).__name__}: {err}")
            quiet[0] = False
            await asyncio.sleep(0.3)
            v = check(where)
            if kind == "readthrough" and v is not None and log_before == [e["ts"] for e in ctl.faultlog]:
                n = min(limit, 64)
                want = {i: log_before[i] for i in range(min(n, len(log_before)))}
                got = {i: t for i, t in v.items() if i < n}
                if len(log_before) < n:
                    # the read-through saw the end of the log: nothing at or beyond it may remain in the view
                    got = {i: t for i, t in v.items()}
                if got != want:
                    ctx.violate("C19", "readthrough", "", f"{where}: after a loss-free read-through of [0,{n}) the view {sorted(got.items())[:8]} "
                                f"differs from the controller's log {sorted(want.items())[:8]}")
                else:
                    ctx.probe("readthrough_ok")
            ctx.ab(f"{kind[0]}{min(limit, 9)}")
        n_steps += 1
    await gwy.stop()
    await asyncio.sleep(0.1)
    gc.collect()
    for e in ctx.loop_excs:
        ctx.violate("C19", "loop_exc", e["sig"], f"unhandled in the loop: {e['type']}: {e['text']}")
    ctx.nontrivial = n_steps >= 3
    ctx.sample = {"preload": k("preload"), "ops": plan.ops[:5], "final_view": sorted(view().items())[:5] if True else None}


def on_hang(ctx, where: str, pending: list[str]) -> None:
    ctx.violate("C19", "hang", where, f"event loop ran dry at {where}; pending={pending}")


def on_wedge(ctx, desc: str) -> None:
    ctx.violate("C19", "wedged", desc.split("(")[0], desc)
