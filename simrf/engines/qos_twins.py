"""qos engine, scenario `twins` (C08): byte-identical commands from different callers.

The main scenarios keep every command's frame unique so that each write can be attributed; here two or three callers
submit the *same* frame.  Nothing is echoed, so the one in flight runs through its whole retry budget while the others wait
in the queue and give up (short timeout, or cancelled).  Oracle (reference: a sequential sender with back-off 0.5, 1, 2, 4 s):
the frame is written exactly 1 + min(max_retries, 3) times, never after the in-flight caller's verdict, and that caller
fails with a protocol error no earlier than its cumulative back-off -- whatever the queued twins do.
"""
from __future__ import annotations

import asyncio

import ramses_tx.protocol as P
import ramses_tx.transport as T
from ramses_tx import Command, Priority, QosParams, exceptions as exc

GID = "18:006402"
BACKOFF = [0.5, 1.5, 3.5, 7.5]  # the moment the n-th unanswered attempt is given up (default echo timeout, doubling)


def generate(plan) -> None:
    r = plan.rng("gen")
    k = plan.d["knobs"]
    k.update({"drift": 0.0, "min_gap": 0.05, "fault_free": False, "split_rate": 0.0, "tie_rate": r.choice([0.0, 0.5])})
    k["frame"] = r.choice([f"RQ --- 18:000730 01:145038 --:------ 30C9 001 {r.randrange(12):02X}",
                           f"RQ --- 18:000730 13:111111 --:------ 0008 001 00",
                           f" W --- 18:000730 01:145038 --:------ 2309 003 {r.randrange(12):02X}{r.randrange(500, 3000):04X}"])
    k["a_retries"] = r.choice([1, 2, 3, 3, 5])
    a_done = BACKOFF[min(k["a_retries"], 3)]
    ops = plan.d["ops"]
    for i in range(r.choice([1, 1, 2])):
        at = round(r.choice([0.0, 0.01, 0.1, 0.3]), 3)
        how = r.choice(["timeout", "timeout", "cancel"])
        # the twin must be gone well before the in-flight command is
        latest = a_done - 0.3 - at
        cands = [t for t in (0.05, 0.2, 0.45, 0.55, 0.9, 1.4, 1.6, 3.0, 3.4) if t < latest]
        if not cands:
            continue
        ops.append({"op": "twin", "at": at, "how": how, "after": r.choice(cands), "prio": r.choice(["DEFAULT", "DEFAULT", "HIGH", "LOW"]),
                    "max_retries": r.choice([0, 1, 3])})


async def run(ctx) -> None:
    plan, loop, hub = ctx.plan, ctx.loop, ctx.hub
    k = plan.knob
    T.MIN_INTER_WRITE_GAP = k("min_gap", 0.05)
    T._DBG_DISABLE_DUTY_CYCLE_LIMIT = True
    T.is_hgi80 = lambda name: False
    ser = hub.add_port("/dev/sim0", GID, "evofw3")
    frame = k("frame")
    wire = frame.replace("18:000730", GID)
    hub.echo_policy = lambda s, f, nth: ([] if f.decode() == wire else [0.01])  # the twins' frame is never echoed
    msgs: list = []
    proto = P.protocol_factory(msgs.append, disable_qos=False)
    tr = T.PortTransport(ser, proto, loop=loop)
    await proto.wait_for_connection_made(timeout=3)
    await asyncio.sleep(0.2)
    t0 = loop.time()
    n_a = 1 + min(k("a_retries"), 3)
    a_done = BACKOFF[n_a - 1]
    res: dict = {}

    async def call(name, max_retries, timeout, prio):
        ts = loop.time()
        try:
            await proto.send_cmd(Command(frame), priority=getattr(Priority, prio),
                                 qos=QosParams(max_retries=max_retries, timeout=timeout, wait_for_reply=False))
            res[name] = ("ok", loop.time() - ts)
        except asyncio.CancelledError:
            res[name] = ("cancelled", loop.time() - ts)
            raise
        except Exception as err:  # noqa
            res[name] = (type(err).__name__, loop.time() - ts, isinstance(err, exc.ProtocolError))

    ta = loop.create_task(call("A", k("a_retries"), 20.0, "DEFAULT"))
    await asyncio.sleep(0)
    twins = []
    for i, o in enumerate(plan.ops):
        if o["op"] != "twin":
            continue

        async def twin(i=i, o=o):
            await asyncio.sleep(o["at"])
            if o["how"] == "timeout":
                await call(f"B{i}", o["max_retries"], o["after"], o["prio"])
            else:
                t = loop.create_task(call(f"B{i}", o["max_retries"], 20.0, o["prio"]))
                await asyncio.sleep(o["after"])
                t.cancel()
                try:
                    await t
                except asyncio.CancelledError:
                    pass
        twins.append(loop.create_task(twin()))
        hub.count("identical_command_queued")
    await asyncio.wait_for(asyncio.gather(ta, *twins, return_exceptions=True), 60)
    t_a_verdict = t0 + res.get("A", ("?", 0))[1]
    await asyncio.sleep(2.0)
    writes = [(t - t0) for (t, _n, d) in hub.writes if d.rstrip(b"\r\n").decode() == frame]
    a = res.get("A")
    detail = f"frame {frame!r}: writes at {[round(w, 2) for w in writes]}, outcomes {res}, twins {[o for o in plan.ops if o['op'] == 'twin']}"
    if a is None or a[0] == "ok" or (len(a) > 2 and not a[2]):
        ctx.violate("C08", "twins", "wrong_outcome", f"the un-echoed in-flight command ended with {a}: {detail}")
    else:
        if len(writes) != n_a:
            ctx.violate("C08", "twins", "too_few_tx" if len(writes) < n_a else "too_many_tx", f"expected {n_a} transmissions of the in-flight "
                        f"command (max_retries={k('a_retries')}, never echoed) whatever its queued twins do, saw {len(writes)}: {detail}")
        if a[1] < a_done - 0.15:
            ctx.violate("C08", "twins", "gave_up_early", f"the in-flight command was failed after {a[1]:.2f} s; its back-off budget runs to "
                        f"{a_done} s: {detail}")
        late = [w for w in writes if t0 + w > t_a_verdict + 0.001]
        if late:
            ctx.violate("C08", "twins", "tx_after_verdict", f"transmissions after the verdict: {detail}")
    for name, v in res.items():
        if name != "A" and v[0] not in ("cancelled", "ProtocolSendFailed"):
            ctx.violate("C08", "twins", f"twin_outcome:{v[0]}", f"a queued identical command ended with {v}: {detail}")
    ctx.probe("twin_runs")
    tr.close()
    await asyncio.sleep(0.2)
    ctx.nontrivial = bool(twins)
    ctx.ab(f"{k('a_retries')}|" + ",".join(f"{o['how'][:1]}{o['after']}@{o['at']}{o['prio'][:1]}" for o in plan.ops if o["op"] == "twin"))
    ctx.sample = {"scenario": "twins", "frame": frame, "a_retries": k("a_retries"), "twins": [o for o in plan.ops if o["op"] == "twin"],
                  "writes": [round(w, 2) for w in writes], "outcomes": {n: v[:2] for n, v in res.items()}}
