"""Engine `disc` (C12): active discovery against a scripted controller with a drawn configuration."""
from __future__ import annotations

import asyncio
import gc

from .. import world  # noqa: F401
from ..peers import SimController
from ..runner import exc_sig
from ..vloop import T0

import ramses_tx.transport as T
import ramses_rf.entity_base as EB
from ramses_rf import Gateway

GID = "18:006402"
CTL = "01:145038"
CLASSES = ["radiator_valve", "zone_valve", "electric_heat", "mixing_valve", "underfloor_heating"]
ACT_TYPE = {"radiator_valve": "04", "zone_valve": "13", "electric_heat": "13", "mixing_valve": "13",
            "underfloor_heating": "02"}
SENSOR_TYPES = ["01", "03", "04", "12", "22", "34"]


def generate(plan) -> None:
    r = plan.rng("gen")
    k = plan.d["knobs"]
    fault_free = r.random() < 0.25
    k["fault_free"] = fault_free
    k["drift"] = 0.0
    k["min_gap"] = 1.0
    k["max_zones"] = r.choice([1, 2, 4, 8, 12])
    n = r.randrange(0, k["max_zones"] + 1)
    idxs = sorted(r.sample(range(12), n))
    zones = {}
    used = set()

    def dev(t):
        while True:
            d = f"{t}:{r.randrange(1000, 260000):06d}"
            if d not in used:
                used.add(d)
                return d

    ctl_sensor_used = False
    for i in idxs:
        cls = r.choice(CLASSES[:4]) if r.random() < 0.9 else "underfloor_heating"
        st = r.choice(SENSOR_TYPES + [None])
        if st == "01":
            sensor = CTL if not ctl_sensor_used else None
            ctl_sensor_used = True
        elif st is None:
            sensor = None
        else:
            sensor = dev(st)
        n_act = r.choice([0, 1, 1, 2, 3, 8])
        acts = [] if cls == "underfloor_heating" else [dev(ACT_TYPE[cls]) for _ in range(n_act)]
        if st == "04" and cls == "radiator_valve" and acts and r.random() < 0.5:
            sensor = acts[0]  # a TRV that is also the zone's sensor
        zones[f"{i:02X}"] = {"class": cls, "sensor": sensor, "actuators": acts}
    dhw = None
    if r.random() < 0.5:
        dhw = {"sensor": dev("07") if r.random() < 0.8 else None,
               "dhw_valve": dev("13") if r.random() < 0.7 else None,
               "htg_valve": dev("13") if r.random() < 0.4 else None}
        if not any(dhw.values()):
            dhw = None
    app = r.choice([None, "13", "10"])
    k["cfg"] = {"zones": zones, "dhw": dhw, "app": dev(app) if app else None}
    # with the write gap at 1.0 s a large system's polling burst (a hundred requests at once) waits longer in the transport than the
    # echo timers do (KF1's mechanism), the 32-slot send buffer overflows, and one and the same probe can then fail at every round: an
    # artefact of the knob, not of discovery (thorough tier, 1 in 2 000 runs) -- large configurations run with 0.25 s
    if len(zones) > 6:
        k["min_gap"] = 0.25
    k["hours"] = 49 if not fault_free else 26
    k["p_drop_rq"] = 0.0 if fault_free else r.choice([0.0, 0.3, 0.7, 0.9])
    k["p_drop_rp"] = 0.0 if fault_free else r.choice([0.1, 0.3, 0.6])
    k["fault_window_s"] = 0 if fault_free else r.choice([120, 900, 3600])
    k["split_rate"] = 0.0
    # when the controller's first sync cycle is heard: while Gateway.start() is still under way (port open, not yet returned), or later
    k["sync_first"] = r.choice([0.0, 0.004, 0.012, 0.03, 1.0, 1.0, 60.0])
    # the devices themselves are on the air too (own stream): TRVs report demand / setpoint / window state to the controller with
    # their zone index, sensors and relays announce themselves, and a neighbour's controller with its own TRVs uses the same zone
    # indexes.  Consistent with the configuration -- so nothing the controller did not say may appear, and nothing may go missing.
    ra = plan.rng("gen/ambient")
    k["ambient"] = ra.random() < 0.35
    k["ambient_period"] = ra.choice([300.0, 900.0, 3600.0])
    k["neighbour"] = ra.random() < 0.6
    # the application saves the state now and then, as Home Assistant does (get_state pauses and resumes the engine)
    k["snapshots"] = sorted(round(ra.choice([2.0, 5.0, 12.0, 40.0, 300.0, 2000.0, 20000.0, 80000.0]) * ra.uniform(0.5, 1.5), 1)
                            for _ in range(ra.choice([0, 0, 1, 2, 4])))
    plan.d["ops"] = []


def expected(cfg: dict) -> dict:
    zones = {z: {"class": c["class"], "sensor": c["sensor"], "actuators": sorted(c["actuators"])}
             for z, c in cfg["zones"].items()}
    dhw = cfg.get("dhw") or {}
    return {"zones": zones,
            "dhw": {"sensor": dhw.get("sensor"), "hotwater_valve": dhw.get("dhw_valve"), "heating_valve": dhw.get("htg_valve")},
            "app": cfg.get("app")}


def observed(gwy) -> dict:
    sch = gwy.schema.get(CTL) or {}
    zones = {}
    for z, c in (sch.get("zones") or {}).items():
        zones[z] = {"class": c.get("class"), "sensor": c.get("sensor"), "actuators": sorted(c.get("actuators") or [])}
    d = sch.get("stored_hotwater") or {}
    return {"zones": zones,
            "dhw": {"sensor": d.get("sensor"), "hotwater_valve": d.get("hotwater_valve"), "heating_valve": d.get("heating_valve")},
            "app": (sch.get("system") or {}).get("appliance_control")}


def facts(s: dict) -> set:
    out = set()
    for z, c in s["zones"].items():
        out.add(("zone", z))
        if c["class"] is not None:
            out.add(("class", z, c["class"]))
        if c["sensor"] is not None:
            out.add(("sensor", z, c["sensor"]))
        for a in c["actuators"]:
            out.add(("actuator", z, a))
    for kk, v in s["dhw"].items():
        if v is not None:
            out.add(("dhw", kk, v))
    if s["app"] is not None:
        out.add(("app", s["app"]))
    return out


NBR = "01:199999"


async def ambient(hub, cfg: dict, period: float, neighbour: bool, count) -> None:
    """Frames in the shapes the corpus shows for each device type (written from those lines, not by the library)."""
    n = 0
    while True:
        await asyncio.sleep(period)
        n += 1
        out = []
        for z, zc in cfg["zones"].items():
            for a in zc["actuators"]:
                if a[:2] == "04":
                    out += [f" I --- {a} --:------ {CTL} 3150 002 {z}{(n * 7) % 200:02X}",
                            f" I --- {a} --:------ {a} 30C9 003 00{0x0700 + n % 200:04X}",
                            f" I --- {a} --:------ {CTL} 2309 003 {z}{0x0640 + 50 * (n % 8):04X}",
                            f" I --- {a} --:------ {CTL} 12B0 003 {z}0000",
                            f" I --- {a} --:------ {CTL} 1060 003 {z}FF01"]
                elif a[:2] == "13":
                    out += [f" I --- {a} --:------ {a} 3EF0 003 00{(n % 2) * 200:02X}FF"]
            sn = zc["sensor"]
            if sn and sn[:2] in ("03", "12", "22", "34") :
                out += [f" I --- {sn} --:------ {sn} 30C9 003 00{0x0780 + n % 100:04X}"]
        dhw = cfg.get("dhw") or {}
        if dhw.get("sensor"):
            out += [f" I --- {dhw['sensor']} --:------ {dhw['sensor']} 1260 003 00{0x1100 + n % 200:04X}"]
        for key in ("dhw_valve", "htg_valve"):
            if dhw.get(key):
                out += [f" I --- {dhw[key]} --:------ {dhw[key]} 3EF0 003 0000FF"]
        if cfg.get("app") and cfg["app"][:2] == "13":
            out += [f" I --- {cfg['app']} --:------ {cfg['app']} 3EF0 003 00C8FF", f" I --- {cfg['app']} --:------ {cfg['app']} 3B00 002 00C8"]
        if neighbour:  # the house next door: same zone indexes, its own devices
            out += [f" I --- {NBR} --:------ {NBR} 1F09 003 FF0A00",
                    f" I --- {NBR} --:------ {NBR} 30C9 009 0007D00107D00207D0",
                    f" I --- 04:199001 --:------ {NBR} 3150 002 00{(n * 3) % 200:02X}",
                    f" I --- 04:199002 --:------ {NBR} 2309 003 0107D0",
                    f" I --- 04:199003 --:------ {NBR} 12B0 003 020000",
                    f" I --- 13:199004 --:------ 13:199004 3EF0 003 0000FF"]
        for i, f in enumerate(out):
            hub.broadcast(f, 0.02 * i)
        count(len(out))


async def run(ctx) -> None:
    plan, loop, hub = ctx.plan, ctx.loop, ctx.hub
    k = plan.knob
    cfg = k("cfg")
    T.MIN_INTER_WRITE_GAP = k("min_gap", 1.0)
    T.serial_for_url = hub.serial_for_url
    hub.add_port("/dev/sim0", GID)
    ctl = SimController(hub, CTL, cfg, plan)
    hub.peers.append(ctl)
    t0 = loop.time()
    fw = k("fault_window_s", 0)
    dropped = {"rq": 0, "rp": 0}

    def reply_filter(rq_line, rep, n):
        if loop.time() - t0 < fw:
            code = rq_line[37:41]
            if code in ("0005", "000C"):
                d = plan.decide(f"rp/{code}/{rq_line[46:50]}/{sum(1 for t, l in ctl.rq_log if l == rq_line)}",
                                lambda r: r.random() < k("p_drop_rp", 0.0), False)
                if d:
                    dropped["rp"] += 1
                    hub.count("reply_lost")
                    return []
        return [0.03]

    n_tx = [0]

    def tx_policy(ser_, frame, nth):
        if loop.time() - t0 >= fw or b" 7FFF " in frame:
            return False
        n_tx[0] += 1
        lost = plan.decide(f"tx/{n_tx[0]}", lambda r: r.random() < k("p_drop_rq", 0.0), False)
        if lost:
            dropped["rq"] += 1
        return lost

    hub.tx_policy = tx_policy
    ctl.reply_filter = reply_filter
    want = expected(cfg)
    want_facts = facts(want)
    gwy = Gateway("/dev/sim0", config={"disable_discovery": False, "enforce_known_list": False,
                                      "max_zones": max(12, k("max_zones", 12))})
    sf = k("sync_first", 1.0)
    sync = loop.create_task(ctl.sync_cycle(185.0, first=sf)) if sf < 0.5 else None
    await gwy.start()
    if sync is None:
        sync = loop.create_task(ctl.sync_cycle(185.0, first=sf))
    else:
        ctx.probe("controller_first_heard_during_start")
    amb = None
    if k("ambient", False):
        amb = loop.create_task(ambient(hub, cfg, k("ambient_period", 240.0), k("neighbour", False),
                                       lambda n: hub.count("ambient_device_frames", n)))
    n_snap = [0]
    last_pause_end = [0.0]  # a restore pauses the engine: polls that fall due meanwhile are refused and repeated a polling round later

    async def restore(pk: dict, secs: float) -> None:
        # the application puts a saved state back while discovery is running (the engine is paused meanwhile, on a slow host for
        # seconds: polls that fall due then are refused -- and must simply be tried again later)
        loop.iter_cost = secs / max(60, 3 * len(pk))
        try:
            await gwy._restore_cached_packets(dict(pk))
            hub.count("restore_during_discovery")
        except Exception as err:  # noqa
            ctx.violate("C12", "restore_raised", exc_sig(err), f"restoring a snapshot during discovery raised {type(err).__name__}: {err}")
        finally:
            loop.iter_cost = 0.0
            last_pause_end[0] = loop.time() - t0

    def snapshot():
        try:
            st = gwy.get_state()
            hub.count("snapshot_during_discovery")
        except RuntimeError as err:
            if "already paused" in str(err):  # a restore is under way: the snapshot is refused, by design
                ctx.probe("snapshot_refused_during_a_restore")
                return
            ctx.violate("C12", "snapshot_raised", exc_sig(err), f"get_state() during discovery raised {type(err).__name__}: {err}")
            return
        except Exception as err:  # noqa
            ctx.violate("C12", "snapshot_raised", exc_sig(err), f"get_state() during discovery raised {type(err).__name__}: {err}")
            return
        n_snap[0] += 1
        d = plan.decide(f"restore_after_snapshot/{n_snap[0]}", lambda rr: ["yes", rr.choice([2.0, 8.0, 30.0])] if rr.random() < 0.7 else ["no"], ["no"])
        if d[0] == "yes" and st[1] and not k("fault_free"):  # (the fault-free runs keep their 20-minute liveness bound)
            loop.create_task(restore(st[1], d[1]))

    for ts in k("snapshots", []):
        loop.call_at(t0 + ts, snapshot)
    horizon = k("hours", 49) * 3600.0
    seen: set = set()
    t_learned: dict = {}
    step = 600.0
    t = 0.0
    converged_at = None
    while t < horizon:
        await asyncio.sleep(min(step, horizon - t))
        t = loop.time() - t0
        try:
            obs = observed(gwy)
        except Exception as err:  # noqa
            ctx.violate("C12", "schema_raised", exc_sig(err), f"gwy.schema raised {type(err).__name__}: {err}")
            break
        f = facts(obs)
        extra = f - want_facts
        if extra:
            ctx.violate("C12", "unsound", sorted(extra)[0][0], f"at t={t:.0f}s the schema states {sorted(extra)[:4]} which the controller "
                        f"never said (config {cfg})")
            break
        lost = seen - f
        if lost:
            ctx.violate("C12", "forgotten", sorted(lost)[0][0], f"at t={t:.0f}s the schema no longer has {sorted(lost)[:4]} (learned at "
                        f"{[round(t_learned[x]) for x in sorted(lost)[:4]]} s)")
            break
        for x in f - seen:
            t_learned[x] = t
        seen |= f
        if converged_at is None and f == want_facts:
            converged_at = t
        if converged_at is not None and t > max(converged_at + (1800 if k("fault_free") else 3 * 3600), fw + 1800):
            break  # keep watching soundness / monotonicity for a while after convergence, then stop
    final = facts(observed(gwy))
    missing = want_facts - final
    # a discovery send that is lost -- or that waits too long in the send queue -- is repeated one polling
    # interval (24 h) later: "filled in at a later polling round"
    bound = max(fw, last_pause_end[0]) + 24 * 3600 + 1800
    if missing and t >= bound:
        ctx.violate("C12", "incomplete", sorted(missing)[0][0], f"after {t / 3600:.1f} h (faults stopped at {fw} s) the schema still "
                    f"lacks {sorted(missing)[:5]}; dropped replies={dropped}; config={cfg}")
    elif converged_at is not None and k("fault_free") and converged_at > 1200:
        ctx.probe("fault_free_but_needed_a_second_round")
    ctx.probe("converged" if not missing else "not_converged")
    if dropped["rp"]:
        ctx.probe("runs_with_lost_replies")
        if converged_at is not None and converged_at > 3600:
            ctx.probe("filled_in_at_a_later_round")
    ctx.probe("rqs_written", len(ctl.rq_log))
    sync.cancel()
    if amb is not None:
        amb.cancel()
    await gwy.stop()
    await asyncio.sleep(0.1)
    gc.collect()
    ctx.nontrivial = bool(cfg["zones"] or cfg["dhw"] or cfg["app"])
    ctx.ab("|".join(f"{z}{c['class'][:3]}{'S' if c['sensor'] else '-'}{len(c['actuators'])}" for z, c in sorted(cfg["zones"].items())))
    ctx.ab(f"dhw={bool(cfg['dhw'])} app={str(cfg['app'])[:2]} drop={dropped['rp']}")
    ctx.sample = {"config": cfg, "hours": k("hours"), "dropped_replies": dropped, "converged_at_s": converged_at,
                  "rqs_written": len(ctl.rq_log)}


def on_hang(ctx, where: str, pending: list[str]) -> None:
    ctx.violate("C12", "hang", where, f"event loop ran dry at {where}; pending={pending}")


def on_wedge(ctx, desc: str) -> None:
    ctx.violate("C12", "wedged", desc.split("(")[0], desc)
