"""Engine `sched`: schedules.  Scenarios:
  codec (C17): encode/fragment/decode identity on generated schedules (monitored), W|0404 frames fit and decode,
               reassembly from overheard RP|0404 fragments in any order / with repeats / mixed versions, and a
               set_schedule -> fresh-gateway get_schedule round trip against the scripted controller
  xfer  (C18): concurrent get/set transfers for 1-3 zones (+DHW) under loss, delay, duplication, schedule changes on
               the controller between exchanges, overheard fragments, overall timeouts and caller cancellation
"""
from __future__ import annotations

import asyncio
import gc
import json

from .. import world  # noqa: F401
from ..peers import SimController, pack_schedule
from ..runner import exc_sig
from ..vloop import T0

import ramses_tx.transport as T
from ramses_rf import Gateway
from ramses_rf.system.schedule import fragz_to_full_sched, full_sched_to_fragz
from ramses_tx import Command, exceptions as exc
from ramses_tx.message import Message
from ramses_tx.packet import Packet

GID = "18:006402"
CTL = "01:145038"
OTHER = "30:111111"
TRICKY = [5.02, 5.06, 5.09, 8.2, 8.21, 9.39, 16.08, 17.9, 19.99, 20.06, 32.07, 34.99, 35.0, 5.0, 20.0, 21.5]


def gen_schedule(r, marker: int, dhw: bool = False, n_max: int = 6) -> list:
    days = []
    for d in range(7):
        n = r.choice([1, 2, 3, 4, n_max])
        times = sorted(r.sample(range(288), n))
        sps = []
        for j, t in enumerate(times):
            tod = f"{(t * 5) // 60:02d}:{(t * 5) % 60:02d}"
            if dhw:
                sps.append({"time_of_day": tod, "enabled": bool((j + marker) % 2)})
            else:
                base = r.choice(TRICKY) if r.random() < 0.5 else round(r.randrange(500, 3501) / 100, 2)
                if marker >= 0:  # every switchpoint carries the version marker in its hundredths
                    base = round(min(34, max(5, int(base))) + (marker % 100) / 100, 2)
                sps.append({"time_of_day": tod, "heat_setpoint": base})
        days.append({"day_of_week": d, "switchpoints": sps})
    return days


def generate(plan) -> None:
    r = plan.rng("gen")
    k = plan.d["knobs"]
    sc = plan.d["scenario"]
    k["drift"] = 0.0
    k["fault_free"] = r.random() < 0.15
    k["min_gap"] = 0.05
    zones = sorted(r.sample(["00", "01", "02", "05", "0A", "0B"], r.randrange(1, 4)))
    k["dhw"] = r.random() < 0.3
    r2 = plan.rng("gen/x2")
    shadow = sc == "xfer" and r2.random() < 0.2
    if shadow:  # (needs both the hot water and zone 00, which share index 00 on the wire)
        k["dhw"] = True
        zones = sorted(set(zones[1:] + ["00"]))
    k["zones"] = zones
    ops = plan.d["ops"]
    if sc == "codec":
        # the validator does not cap the switchpoints of a day: some schedules are long enough for 10-20 fragments
        n_max = plan.rng("gen/nmax").choice([6, 6, 6, 6, 12, 30, 48])
        k["n_max"] = n_max
        k["scheds"] = {z: gen_schedule(r, -1, n_max=n_max) for z in zones}
        if k["dhw"]:
            k["scheds"]["HW"] = gen_schedule(r, -1, dhw=True, n_max=n_max)
        k["v2"] = {z: gen_schedule(r, -1, n_max=n_max) for z in zones}
        k["wire_target"] = plan.rng("gen/wt").choice(zones + (["HW", "HW"] if k["dhw"] else []))
        for z in zones:
            for ver in ("v1", "v2") if r.random() < 0.5 else ("v1",):
                ops.append({"op": "overhear_all", "zone": z, "ver": ver})
        return
    ff = k["fault_free"]
    k["p_lost"] = 0.0 if ff else r.choice([0.0, 0.1, 0.3, 0.6])
    k["p_late"] = 0.0 if ff else r.choice([0.0, 0.2])
    k["p_dup"] = 0.0 if ff else r.choice([0.0, 0.2])
    k["no_sched_zone"] = None if r.random() < 0.8 else r.choice(zones)
    k["scheds"] = {z: gen_schedule(r, i + 1) for i, z in enumerate(zones)}
    if k["dhw"]:
        k["scheds"]["HW"] = gen_schedule(r, 0, dhw=True)
    targets = zones + (["HW"] if k["dhw"] else [])
    t = 0.0
    n_ops = r.randrange(1, 6)
    for i in range(n_ops):
        z = r.choice(targets)
        kind = r.choice(["get", "get", "get", "set"])
        d = {"op": kind, "id": i, "at": round(t, 3), "zone": z, "force": r.random() < 0.6,
             "timeout": r.choice([0.3, 1.0, 3.0, 15.0, 15.0, 60.0, 400.0])}
        if kind == "set":
            d["marker"] = 50 + i
        ops.append(d)
        t += r.choice([0.0, 0.0, 0.2, 2.0, 20.0, 200.0])
    horizon = t + 30
    if not ff:
        for _ in range(r.choice([0, 1, 2])):
            ops.append({"op": "change", "at": round(r.uniform(0, horizon), 3), "zone": r.choice(targets), "marker": r.randrange(20, 49)})
        for _ in range(r.choice([0, 0, 2, 5])):
            ops.append({"op": "overhear", "at": round(r.uniform(0, horizon), 3), "zone": r.choice(zones),
                        "frag": r.randrange(1, 4), "ver": r.choice(["cur", "old"])})
        if r.random() < 0.25:
            ops.append({"op": "cancel", "at": round(r.uniform(0, horizon), 3), "ref": r.randrange(n_ops)})
        for _ in range(r.choice([0, 0, 1])):
            ops.append({"op": "stall", "at": round(r.uniform(0, horizon), 3), "dur": r.choice([0.05, 0.6, 3.0])})
    # (own stream) a request / write that is echoed by the dongle but not heard by the controller; and a caller that gives up
    # just as the transfer it was queueing behind ends, i.e. around the instant it is handed the per-system lock
    k["p_unheard"] = 0.0 if ff else r2.choice([0.0, 0.0, 0.1, 0.3])
    k["handover_cancel"] = (not ff) and r2.random() < 0.3
    # while the hot-water schedule is fetched, another gateway fetches zone 00's: the controller's reply for the same fragment number
    # of zone 00 (addressed to that other gateway) is on the air just before each of ours
    k["shadow_zone00"] = (not ff) and shadow
    # the final fragment of a write never reaches the controller (every re-transmission is echoed but unheard), while somebody edits
    # another zone: the change counter moves although this write was not taken
    k["last_w_unheard"] = (not ff) and r2.random() < 0.15
    if k["last_w_unheard"] and len(targets) > 1:
        sets = [d for d in ops if d["op"] == "set"]
        for d in sets[:1]:
            other = next(z for z in targets if z != d["zone"])
            ops.append({"op": "change", "at": round(d["at"] + 0.3, 3), "zone": other, "marker": 19})


def norm(s):
    """Canonical JSON of an inner schedule (or None)."""
    return None if s is None else json.dumps(s, sort_keys=True)


async def make_gateway(ctx, zones, dhw, with_ctl: SimController | None = None):
    hub, loop = ctx.hub, ctx.loop
    T.serial_for_url = hub.serial_for_url
    if "/dev/sim0" not in hub.ports:
        hub.add_port("/dev/sim0", GID)
    schema = {CTL: {"zones": {z: {"class": "radiator_valve"} for z in zones}}}
    if dhw:
        schema[CTL]["stored_hotwater"] = {"sensor": "07:045960"}
    gwy = Gateway("/dev/sim0", config={"disable_discovery": True, "enforce_known_list": False}, **schema, main_tcs=CTL)
    await gwy.start()
    return gwy


# ---------------------------------------------------------------------------------------
# C17
# ---------------------------------------------------------------------------------------

async def run_codec(ctx) -> None:
    plan, loop, hub = ctx.plan, ctx.loop, ctx.hub
    k = plan.knob
    # the codec, not the transmit regulation, is the subject here: a 20-fragment write empties the duty-cycle bucket and the
    # limiter then holds frames back for longer than the echo timers wait (KF1's mechanism, C08/C11's business)
    T._DBG_DISABLE_DUTY_CYCLE_LIMIT = True
    zones = k("zones")
    scheds = k("scheds")
    # (a) pure clauses, monitored on the generated schedules
    for z, s in scheds.items():
        full = {"zone_idx": "00" if z == "HW" else z, "schedule": s}
        try:
            frags = full_sched_to_fragz(full)
            back = fragz_to_full_sched(frags)
        except Exception as err:  # noqa
            ctx.violate("C17", "codec_raised", exc_sig(err), f"schedule for {z}: {type(err).__name__}: {err}")
            continue
        if back.get("zone_idx") != full["zone_idx"]:
            ctx.violate("C17", "identity", "zone_idx", f"zone {z}: encode->fragment->decode gives zone_idx {back.get('zone_idx')!r}, "
                        f"not {full['zone_idx']!r}")
        if len(frags) >= 10:
            ctx.probe("schedules_of_10_or_more_fragments")
        if norm(back["schedule"]) != norm(s):
            a, b = back["schedule"], s
            diff = next(((x, y) for dx, dy in zip(a, b) for x, y in zip(dx["switchpoints"], dy["switchpoints"]) if x != y), None)
            kind = "setpoint_lsb" if diff and "heat_setpoint" in diff[1] and abs(diff[0].get("heat_setpoint", 0) - diff[1]["heat_setpoint"]) < 0.011 \
                and diff[0]["time_of_day"] == diff[1]["time_of_day"] else "other"
            ctx.violate("C17", "identity", kind, f"zone {z}: encode->fragment->decode is not the identity: {diff}")
        for i, f in enumerate(frags, 1):
            if len(f) > 82:
                ctx.violate("C17", "fragment_size", "", f"fragment {i} of zone {z} has {len(f) // 2} bytes")
            try:
                cmd = Command.set_schedule_fragment(CTL, "HW" if z == "HW" else z, i, len(frags), f)
                if len(cmd.payload) > 96:
                    ctx.violate("C17", "frame_size", "", f"W|0404 for fragment {i} has a {len(cmd.payload) // 2}-byte payload")
                m = Message._from_cmd(cmd)
                if m.payload.get("fragment") != f or m.payload.get("frag_number") != i or m.payload.get("total_frags") != len(frags):
                    ctx.violate("C17", "w_frame_decode", "", f"W|0404 decodes to {m.payload} for fragment {i}/{len(frags)}")
            except Exception as err:  # noqa
                ctx.violate("C17", "w_frame", exc_sig(err), f"W|0404 for fragment {i} of zone {z}: {type(err).__name__}: {err}")
    # (b) reassembly from overheard reply packets, any order, repeats, mixed versions
    gwy = await make_gateway(ctx, zones, k("dhw"))
    ser = hub.ports["/dev/sim0"]
    versions = {"v1": {z: scheds[z] for z in zones}, "v2": k("v2")}
    for z in zones:
        todo = [o for o in plan.ops if o["op"] == "overhear_all" and o["zone"] == z]
        if not todo:
            continue
        frames = []
        for o in todo:
            frs = pack_schedule(z, versions[o["ver"]][z])
            for i, f in enumerate(frs, 1):
                pl = f"{z}200008{len(f) // 2:02X}{i:02X}{len(frs):02X}{f}"
                frames.append((o["ver"], i, f"RP --- {CTL} {OTHER} --:------ 0404 {len(pl) // 2:03d} {pl}"))
        seq = plan.decide(f"order/{z}", lambda r: [r.randrange(len(frames)) for _ in range(len(frames) + r.randrange(0, 5))]
                          if r.random() < 0.5 else r.sample(range(len(frames)), len(frames)), list(range(len(frames))))
        legal = {norm(versions["v1"][z]), norm(versions["v2"][z])}
        zone = gwy.tcs.zone_by_idx[z]
        # first, cleanly: the complete set of one schedule, then the complete set of the next one (each in any order, with repeats):
        # after each set the zone reports that schedule or none -- never another one (e.g. the one it had before)
        for ver in ("v1", "v2"):
            frs = pack_schedule(z, versions[ver][z])
            tfr = [f"RP --- {CTL} {OTHER} --:------ 0404 {(14 + len(f)) // 2:03d} {z}200008{len(f) // 2:02X}{i:02X}{len(frs):02X}{f}"
                   for i, f in enumerate(frs, 1)]
            order = plan.decide(f"clean/{z}/{ver}", lambda r, n=len(tfr): r.sample(range(n), n) + [r.randrange(n) for _ in range(r.choice([0, 0, 2, 5]))],
                                list(range(len(tfr))))
            if sorted(set(order)) != list(range(len(tfr))):
                continue  # (a shrunk plan may have lost part of the set)
            merged = False
            for n_ix, ix in enumerate(order):
                hub.rx_line(ser, tfr[ix], 0.0)
                await asyncio.sleep(0.02)
                if n_ix == 0 and ver == "v2":
                    # (classification only) the first fragment of the new schedule went into the complete set of the old one and the
                    # mixture still inflates (typically the last fragment: only the checksum's tail changes) -- KF15
                    ps = getattr(getattr(zone, "_schedule", None), "_payload_set", None)
                    merged = bool(ps) and None not in ps and len(ps) == len(tfr) and len(ps) > 1
            try:
                cur = zone.schedule
            except Exception as err:  # noqa
                ctx.violate("C17", "schedule_raised", exc_sig(err), f"zone.schedule raised {type(err).__name__}: {err}")
                break
            if cur is not None and norm(cur) != norm(versions[ver][z]):
                kind = "previous_schedule_kept" if norm(cur) in legal else "different_schedule"
                if kind == "previous_schedule_kept" and merged:
                    kind = "previous_schedule_kept:first_fragment_merged_into_old_set"
                ctx.violate("C17", "reassembly", kind, f"zone {z}: after the complete set of reply packets of schedule {ver} (order {order}) "
                            f"the zone reports another schedule")
                break
            ctx.probe("complete_set_adopted" if cur is not None else "complete_set_gives_none")
        assembled = False
        for n, ix in enumerate(seq):
            ver, i, fr = frames[ix % len(frames)]
            hub.rx_line(ser, fr, 0.0)
            await asyncio.sleep(0.02)
            try:
                cur = zone.schedule
            except Exception as err:  # noqa
                ctx.violate("C17", "schedule_raised", exc_sig(err), f"zone.schedule raised {type(err).__name__}: {err}")
                break
            if cur is not None:
                assembled = True
                if norm(cur) not in legal:
                    ctx.violate("C17", "reassembly", "different_schedule", f"zone {z}: after fragments "
                                f"{[(frames[j % len(frames)][0], frames[j % len(frames)][1]) for j in seq[:n + 1]]} the zone reports a "
                                f"schedule that is neither version of the controller's")
                    break
        ctx.probe("reassembled" if assembled else "not_reassembled")
        ctx.ab(f"{z}:{len(todo)}:{len(seq)}:{assembled}")
    await gwy.stop()
    await asyncio.sleep(0.1)
    # (c) set_schedule against the controller, then get_schedule on a fresh gateway
    ctl = SimController(hub, CTL, {"zones": {z: {"class": "radiator_valve", "sensor": None, "actuators": []} for z in zones},
                                   "dhw": {"sensor": "07:045960"} if k("dhw") else None, "app": None}, plan)
    hub.peers.append(ctl)
    gwy1 = await make_gateway(ctx, zones, k("dhw"))
    z = k("wire_target", zones[0])
    if z not in scheds:
        z = zones[0]

    def ent(g):
        return g.tcs.dhw if z == "HW" else g.tcs.zone_by_idx[z]

    try:
        await asyncio.wait_for(ent(gwy1).set_schedule(scheds[z]), 300)
        # what was written is what the controller now holds for *that* zone / the hot water -- and nothing else has changed
        if norm(ctl.sched.get(z)) != norm(scheds[z]) or any(kk != z for kk in ctl.sched):
            ctx.violate("C17", "wire_roundtrip", "stored_elsewhere", f"set_schedule({z}) succeeded; the controller now holds schedules "
                        f"for {sorted(ctl.sched)} and the one for {z} is {'the one written' if norm(ctl.sched.get(z)) == norm(scheds[z]) else 'not the one written'}")
    except Exception as err:  # noqa
        ctx.violate("C17", "set_schedule_failed", exc_sig(err), f"fault-free set_schedule({z}) raised {type(err).__name__}: {err}")
    await gwy1.stop()
    await asyncio.sleep(0.1)
    gwy2 = await make_gateway(ctx, zones, k("dhw"))
    try:
        got = await asyncio.wait_for(ent(gwy2).get_schedule(force_io=True), 300)
        if norm(got) != norm(scheds[z]):
            a, b = got or [], scheds[z]
            diff = next(((x, y) for dx, dy in zip(a, b) for x, y in zip(dx["switchpoints"], dy["switchpoints"]) if x != y), None)
            kind = "setpoint_lsb" if diff and "heat_setpoint" in diff[1] and abs(diff[0].get("heat_setpoint", 0) - diff[1]["heat_setpoint"]) < 0.011 else "other"
            ctx.violate("C17", "wire_roundtrip", kind, f"zone {z}: set_schedule then get_schedule on a fresh gateway differs: {diff}")
        else:
            ctx.probe("wire_roundtrip_ok")
    except Exception as err:  # noqa
        ctx.violate("C17", "get_schedule_failed", exc_sig(err), f"fault-free get_schedule({z}) raised {type(err).__name__}: {err}")
    await gwy2.stop()
    await asyncio.sleep(0.1)
    for e in ctx.loop_excs:
        ctx.probe("loop_exc:" + e["sig"])
    ctx.nontrivial = True
    ctx.sample = {"scenario": "codec", "zones": zones, "switchpoints": sum(len(d["switchpoints"]) for d in scheds[zones[0]]),
                  "first_day": scheds[zones[0]][0]}


# ---------------------------------------------------------------------------------------
# C18
# ---------------------------------------------------------------------------------------

async def run_xfer(ctx) -> None:
    plan, loop, hub = ctx.plan, ctx.loop, ctx.hub
    k = plan.knob
    zones = k("zones")
    r_cfg = {"zones": {z: {"class": "radiator_valve", "sensor": None, "actuators": []} for z in zones},
             "dhw": {"sensor": "07:045960"} if k("dhw") else None, "app": None}
    ctl = SimController(hub, CTL, r_cfg, plan)
    hub.peers.append(ctl)
    history: dict[str, list] = {}  # zone -> [(t, norm(schedule))] every version the controller ever held

    def set_ctl(z, s):
        ctl.set_schedule(z, s)
        history.setdefault(z, []).append((loop.time(), norm(s)))

    for z, s in k("scheds").items():
        if z != k("no_sched_zone"):
            set_ctl(z, s)
    ctl.on_sched_change = lambda z, s: history.setdefault(z, []).append((loop.time(), norm(s)))  # written by a W|0404 set
    quiet = [False]

    def reply_filter(rq_line, rep, n):
        if quiet[0]:
            return [0.03]
        code = rq_line[37:41]
        if k("shadow_zone00", False) and code == "0404" and rq_line[:2] == "RQ" and rq_line[48:50] == "23" and history.get("00"):
            frs0 = pack_schedule("00", json.loads(history["00"][-1][1]))
            fn = int(rq_line[56:58], 16)
            if 1 <= fn <= len(frs0):
                f0 = frs0[fn - 1]
                pl0 = f"00200008{len(f0) // 2:02X}{fn:02X}{len(frs0):02X}{f0}"
                hub.count("other_zone_reply_same_fragment_number")
                deliveries.append((loop.time() + 0.02, "00", history["00"][-1][1]))
                overheard_log.append((loop.time() + 0.02, "00", history["00"][-1][1]))
                hub.rx_line(hub.ports["/dev/sim0"], f"RP --- {CTL} {OTHER} --:------ 0404 {len(pl0) // 2:03d} {pl0}", 0.02)
        key = f"x/{code}/{rq_line[46:58]}/{sum(1 for t, l in ctl.rq_log if l == rq_line)}"

        def gen(rr):
            x = rr.random()
            if x < k("p_lost", 0.0):
                return ["lost"]
            if x < k("p_lost", 0.0) + k("p_late", 0.0):
                return ["late", rr.choice([0.45, 0.49, 0.51, 0.9, 1.6, 3.0])]
            if x < k("p_lost", 0.0) + k("p_late", 0.0) + k("p_dup", 0.0):
                return ["dup", rr.choice([0.0, 0.02, 0.4])]
            return ["ok"]

        d = plan.decide(key, gen, ["ok"])
        if d[0] == "lost":
            hub.count("reply_lost")
            return []
        if d[0] == "late":
            hub.count("reply_late")
            return [d[1]]
        if d[0] == "dup":
            hub.count("reply_dup")
            return [0.03, 0.03 + d[1]]
        return [0.03]

    deliveries: list[tuple[float, str, str]] = []  # (t_delivered, zone, version) of every RP|0404 fragment
    overheard_log: list[tuple[float, str, str]] = []  # ... those of them that answered somebody else (not part of a transfer of ours)
    counter_replies: list[tuple[float, float]] = []  # (t_generated, t_delivered) of every RP|0006

    acks: list[tuple] = []  # (t_delivered, zone, frag, t_of_the_W_it_answers): the controller's I|0404 acknowledgements

    def on_reply(rq_line, rep, lats):
        if rep[37:41] == "0006":
            for lat in lats or []:
                counter_replies.append((loop.time(), loop.time() + lat))
        if rq_line[:2] == " W" and rq_line[37:41] == "0404":
            zz = "HW" if rq_line[48:50] == "23" else rq_line[46:48]
            for lat in lats or []:
                acks.append((loop.time() + lat, zz, rq_line[56:58], loop.time()))
        if rep[37:41] == "0404" and rep[:2] == "RP" and len(rep) > 60:  # (60 = the 7-byte 'no schedule' reply; a 1-byte fragment is 62)
            z = "HW" if rep[48:50] == "23" else rep[46:48]
            cur = (history.get(z) or [(0, None)])[-1][1]
            for lat in lats or []:
                deliveries.append((loop.time() + lat, z, cur))

    ctl.on_reply = on_reply
    ctl.reply_filter = reply_filter
    n_tx = [0]

    def unheard(ser_, frame, nth):
        if quiet[0] or frame[37:41] not in (b"0404", b"0006") or frame[:2] not in (b"RQ", b" W"):
            return False
        n_tx[0] += 1
        if k("last_w_unheard", False) and frame[:2] == b" W" and frame[37:41] == b"0404" and frame[56:58] == frame[58:60]:
            return True
        return bool(plan.decide(f"unheard/{frame[37:41].decode()}/{frame[46:60].decode()}/{n_tx[0]}",
                                lambda rr: rr.random() < k("p_unheard", 0.0), False))

    hub.unheard_policy = unheard
    gwy = await make_gateway(ctx, zones, k("dhw"))
    ser = hub.ports["/dev/sim0"]
    tcs = gwy.tcs
    t_start = loop.time()

    def zone_of(z):
        return tcs.dhw if z == "HW" else tcs.zone_by_idx[z]

    results: dict[int, dict] = {}
    tasks: dict[int, asyncio.Task] = {}
    stale_ack_zones: set[str] = set()

    async def do(o):
        await asyncio.sleep(max(0.0, t_start + o["at"] - loop.time()))
        ent = results[o["id"]] = {"op": o, "call": loop.time(), "ret": None, "out": None}
        zn = zone_of(o["zone"])
        try:
            if o["op"] == "get":
                res = await zn._schedule.get_schedule(force_io=o["force"], timeout=o["timeout"])
                ent["out"] = ("ok", norm(res))
            else:
                s = gen_schedule(plan.rng(f"set{o['id']}"), o["marker"], dhw=(o["zone"] == "HW"))
                ent["sched"] = norm(s)
                res = await asyncio.wait_for(zn.set_schedule(s), o["timeout"])
                ent["out"] = ("ok", norm(res))
        except asyncio.CancelledError:
            ent["out"] = ("cancelled",)
            ent["ret"] = loop.time()
            raise
        except (TimeoutError, exc.ProtocolError, exc.RamsesException) as err:
            ent["out"] = ("err", type(err).__name__, str(err)[:100])
        except Exception as err:  # noqa
            ent["out"] = ("exc", exc_sig(err), str(err)[:200])
        ent["ret"] = loop.time()
        handover(o)

    def handover(o_done) -> None:
        """a transfer has just ended: whoever queues behind it gets the per-system lock within milliseconds -- a caller that gives
        up right then is cancelled while it takes the lock"""
        if not k("handover_cancel", False) or quiet[0]:
            return
        waiting = [i for i, e in results.items() if e["ret"] is None and e["op"]["zone"] != o_done["zone"]]
        if not waiting:
            return
        d = plan.decide(f"handover/{o_done['id']}", lambda rr: ["cancel", rr.choice([0.0, 0.001, 0.003, 0.004, 0.006, 0.008, 0.012])]
                        if rr.random() < 0.7 else ["no"], ["no"])
        if d[0] != "cancel":
            return

        def cancel(i=waiting[0]):
            t = tasks.get(i)
            if t is not None and not t.done():
                hub.count("caller_cancel_at_lock_handover")
                t.cancel()

        loop.call_later(d[1], cancel)

    # transfers for different zones run concurrently; the calls for one zone are made one after the other
    # (the statement quantifies over concurrent transfers for 2-3 zones, not two callers on one zone)
    per_zone: dict[str, list] = {}
    for o in plan.ops:
        if o["op"] in ("get", "set"):
            per_zone.setdefault(o["zone"], []).append(o)

    async def zone_runner(lst):
        for o in sorted(lst, key=lambda x: (x["at"], x["id"])):
            t = loop.create_task(do(o))
            tasks[o["id"]] = t
            try:
                await t
            except asyncio.CancelledError:
                if not t.cancelled():
                    raise

    runners = [loop.create_task(zone_runner(lst)) for lst in per_zone.values()]
    for o in plan.ops:
        if o["op"] == "change":
            def change(o=o):
                if quiet[0]:
                    return
                hub.count("peer_change")
                set_ctl(o["zone"], gen_schedule(plan.rng(f"chg{o['at']}"), o["marker"], dhw=(o["zone"] == "HW")))
            loop.call_at(t_start + o["at"], change)
        elif o["op"] == "overhear":
            def overhear(o=o):
                if quiet[0]:
                    return
                z = o["zone"]
                hist = history.get(z) or []
                if not hist:
                    return
                s = json.loads(hist[-1][1] if o["ver"] == "cur" or len(hist) < 2 else hist[-2][1])
                frs = pack_schedule(z, s)
                i = min(o["frag"], len(frs))
                f = frs[i - 1]
                pl = f"{z}200008{len(f) // 2:02X}{i:02X}{len(frs):02X}{f}"
                hub.count("overheard")
                deliveries.append((loop.time(), z, norm(s)))
                overheard_log.append((loop.time(), z, norm(s)))
                hub.rx_line(ser, f"RP --- {CTL} {OTHER} --:------ 0404 {len(pl) // 2:03d} {pl}", 0.0)
            loop.call_at(t_start + o["at"], overhear)
        elif o["op"] == "cancel":
            def cancel(o=o):
                t = tasks.get(o["ref"])
                if t is not None and not t.done():
                    hub.count("caller_cancel")
                    t.cancel()
            loop.call_at(t_start + o["at"], cancel)
        elif o["op"] == "stall":
            loop.add_stall(t_start + o["at"], o["dur"])
    horizon = max([o["at"] for o in plan.ops] + [0]) + 1200
    if runners:
        done, pending = await asyncio.wait(runners, timeout=horizon)
        for t in pending:
            t.cancel()
        if pending:
            ctx.violate("C18", "never_ended", "", f"{len(pending)} transfers still running after {horizon:.0f} s")
        for t in done:
            if not t.cancelled() and t.exception() is not None:
                raise t.exception()
    stalls = sum(o["dur"] for o in plan.ops if o["op"] == "stall")
    # 1. bounded; 2. never a schedule the controller did not hold during the transfer
    for i, ent in results.items():
        o = ent["op"]
        if ent["ret"] is None or ent["out"] is None:
            continue
        took = ent["ret"] - ent["call"]
        if ent["out"][0] == "exc":
            ctx.violate("C18", "exception", ent["out"][1], f"{o['op']} {o['zone']}: {ent['out']}")
        if o["op"] == "get" and took > o["timeout"] + 0.05 + stalls:
            ctx.violate("C18", "overran", "get", f"get_schedule({o['zone']}, timeout={o['timeout']}) took {took:.2f} s")
        if ent["out"][0] == "ok" and o["op"] == "set":
            # a write that reports success has been taken by the controller (it held that schedule at some instant of the call)
            if not any(sv == ent.get("sched") and ent["call"] <= t <= ent["ret"] + 1e-9 for (t, sv) in history.get(o["zone"], [])):
                # an acknowledgement of an *earlier* write of this zone (same fragment number, delayed on the air) that arrives during
                # this call is indistinguishable from this call's own: KF14
                stale = any(zz == o["zone"] and ent["call"] <= td <= ent["ret"] and tw < ent["call"] for (td, zz, _f, tw) in acks)
                if stale:
                    stale_ack_zones.add(o["zone"])
                ctx.violate("C18", "set_not_applied", "late_ack_of_previous_write" if stale else "", f"set_schedule({o['zone']}) returned "
                            f"normally but the controller never stored that schedule during the call (it holds "
                            f"{'another' if history.get(o['zone']) else 'no'} one)")
            else:
                ctx.probe("set_applied")
        if ent["out"][0] == "ok" and o["op"] == "get":
            got = ent["out"][1]
            z = o["zone"]
            hist = history.get(z, [])
            # versions the controller held at some instant in [call, ret] (the one current at call included)
            live = [s for (t, s) in hist if t <= ent["ret"]]
            before = [s for (t, s) in hist if t <= ent["call"]]
            legal = set(live[len(before) - 1:] if before else live)
            if got is None:
                if hist and not any(x["op"].get("zone") == z and x["op"]["op"] == "set" for x in results.values()) and z != k("no_sched_zone"):
                    if o["force"] or True:
                        ctx.probe("returned_none")
            elif got not in legal and not any(x.get("sched") == got for x in results.values()):
                allv = {s for (_t, s) in hist}
                kind = "stale_version" if got in allv else "mixed"
                if kind == "stale_version" and old_fragment_after_change(hist, deliveries, z, got, ent["ret"]):
                    kind = "stale_version:old_fragment_after_change"
                elif kind == "stale_version" and any(tg < tc <= td <= ent["ret"] + 1e-6 for (tc, _sv) in hist[1:] for (tg, td) in counter_replies):
                    # a reply to the change-counter query that was generated before the change and delivered (late) after it
                    kind = "stale_version:late_counter_reply_after_change"
                if kind == "stale_version" and not o["force"]:
                    ctx.probe("unforced_get_returned_cached_older_version")  # by design: no change counter was read
                    continue
                ctx.violate("C18", "wrong_schedule", kind, f"get_schedule({z}, force_io={o['force']}) returned a schedule that the "
                            f"controller did not hold at any time during the transfer ({kind}); versions held: {len(hist)}")
        ctx.ab(f"{o['op']}{o['zone']}:{ent['out'][0]}")
    # 2b. the per-system lock serialises transfers: the fragment exchanges of one transfer are not interleaved
    #     with another zone's fragment exchanges
    frames = [(t, ("HW" if l[48:50] == "23" else l[46:48])) for (t, l) in ctl.rq_log if l[37:41] == "0404"]
    # the send layer keeps re-transmitting the request of a transfer whose caller timed out / was cancelled for up to
    # 7.5 s (that is C08's business): such stragglers are not exchanges of the next transfer
    for e in results.values():
        if e["ret"] is not None and e["out"] and (e["out"][0] == "cancelled" or (e["out"][0] == "err" and e["out"][1] == "TimeoutError")):
            zz0, te = e["op"]["zone"], e["ret"]
            frames = [(t, zz) for (t, zz) in frames if not (zz == zz0 and te <= t <= te + 8.0)]
    for i, ent in results.items():
        if ent["ret"] is None:
            continue
        z = ent["op"]["zone"]
        mine = [t for (t, zz) in frames if zz == z and ent["call"] <= t <= ent["ret"]]
        for t1, t3 in zip(mine, mine[1:]):
            # only exchanges of a transfer that is itself under way count: a frame of a transfer that has already ended (whatever
            # its outcome) is a straggler of the send layer -- a delayed write, KF1 -- not a second transfer inside the lock
            other = [(t, zz) for (t, zz) in frames if zz != z and t1 < t < t3
                     and any(e2["op"]["zone"] == zz and e2["ret"] is not None and e2["call"] <= t <= e2["ret"] for e2 in results.values())]
            if other:
                ctx.violate("C18", "interleaved", "", f"{ent['op']['op']}({z}) exchanged fragments at {t1 - t_start:.3f} and "
                            f"{t3 - t_start:.3f} s, with zone {other[0][1]}'s fragment exchange at {other[0][0] - t_start:.3f} s in between")
                break
        else:
            continue
        break
    # 3. nothing left behind
    quiet[0] = True
    hub.quiet = True
    await asyncio.sleep(90.0)  # faults have stopped; also lets the duty-cycle bucket refill after the retransmissions
    if tcs.zone_lock_idx is not None:
        ctx.violate("C18", "lock_left", "", f"after every transfer ended, zone_lock_idx is still {tcs.zone_lock_idx!r}; outcomes="
                    f"{[(e['op']['op'], e['op']['zone'], e['out'][0] if e['out'] else None) for e in results.values()]}")
    targets = zones + (["HW"] if k("dhw") else [])
    for z in targets:
        t0 = loop.time()
        try:
            res = await asyncio.wait_for(zone_of(z)._schedule.get_schedule(force_io=True, timeout=30), 400)
            took = loop.time() - t0
            cur = history.get(z, [(0, None)])[-1][1]
            if took > 60.0:
                ctx.violate("C18", "followup_slow", "", f"fault-free follow-up get_schedule({z}) took {took:.1f} s")
            elif norm(res) != cur and z != k("no_sched_zone"):
                detail = "old_fragment_after_change" if old_fragment_after_change(history.get(z, []), deliveries, z, norm(res), loop.time()) else ""
                hz = history.get(z, [])
                if not detail and hz and norm(res) not in {sv for (_t, sv) in hz} and any(
                        zz == z and ver != hz[-1][1] and hz[-1][0] < t <= loop.time() for (t, zz, ver) in deliveries):
                    detail = "old_fragment_after_change"  # ... stitched into the new version's fragment set (neither version comes out)
                if not detail and hz and any(zz == z and ver != hz[-1][1] and t < hz[-1][0] for (t, zz, ver) in overheard_log):
                    # fragments of the previous version that answered somebody else were overheard before the change; they were still
                    # in the zone's fragment set when our fetch started after the change, and it only asked for the missing numbers
                    detail = "stale_overheard_fragments_reused"
                if not detail and z in stale_ack_zones:
                    detail = "late_ack_of_previous_write"  # (the consequence of KF14: the library caches what it believes it wrote)
                own = [e for e in results.values() if e["op"]["zone"] == z and e.get("sched") == norm(res) and e["ret"] is not None]
                if not detail and own and any(own[-1]["call"] < t <= own[-1]["ret"] + 1e-9 and sv != norm(res)
                                              for (t, sv) in history.get(z, [])[1:]):
                    # the controller's schedule was changed by someone else between our last W and our version query
                    detail = "changed_on_controller_during_set"
                ctx.violate("C18", "followup_wrong", detail, f"fault-free follow-up get_schedule({z}) did not return the controller's "
                            f"current schedule")
            else:
                ctx.probe("followup_ok")
        except Exception as err:  # noqa
            took = loop.time() - t0
            if z == k("no_sched_zone") and tcs.zone_lock_idx is None and took < 12.0:
                ctx.probe("followup_error_for_zone_without_schedule")  # an error is a legitimate ending
                continue
            detail = ""
            ctx.violate("C18", "followup_failed", detail or type(err).__name__, f"fault-free follow-up get_schedule({z}) failed after "
                        f"{took:.1f} s with {type(err).__name__}: {err}; zone_lock_idx={tcs.zone_lock_idx!r}")
    await gwy.stop()
    await asyncio.sleep(0.1)
    gc.collect()
    for e in ctx.loop_excs:
        ctx.probe("loop_exc:" + e["sig"])
    ctx.nontrivial = any(v for kf, v in hub.fault_counts.items())
    ctx.sample = {"scenario": "xfer", "zones": zones, "ops": [o for o in plan.ops[:4]],
                  "outcomes": [(e["op"]["op"], e["op"]["zone"], e["out"][0] if e["out"] else None) for e in results.values()]}


def old_fragment_after_change(hist, deliveries, z, got, t_end) -> bool:
    """True if a reply/overheard fragment of version `got` reached the gateway after the controller had already
    moved on to a newer version (a late duplicate, or a third party's stale traffic)."""
    t_changed = None
    for i, (t, s) in enumerate(hist):
        if s == got and i + 1 < len(hist):
            t_changed = hist[i + 1][0]
    if t_changed is None:
        return False
    return any(zz == z and ver == got and t_changed < t <= t_end for (t, zz, ver) in deliveries)


async def run(ctx) -> None:
    if ctx.plan.d["scenario"] == "codec":
        await run_codec(ctx)
    else:
        await run_xfer(ctx)


def on_hang(ctx, where: str, pending: list[str]) -> None:
    ctx.violate("C18", "hang", where, f"event loop ran dry at {where}; pending={pending}")


def on_wedge(ctx, desc: str) -> None:
    ctx.violate("C18", "wedged", desc.split("(")[0], f"the event loop thread blocked for ever on {desc}")
