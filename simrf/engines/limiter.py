"""Engine `limiter` (C11): transmit regulation of the serial and MQTT transports.

Workload: tasks call transport.write_frame() (directly -- the regulation lives below the protocol)
in bursts, steady streams above/below the sustainable rate, after idle gaps; sync-cycle announcements
are received meanwhile.  The oracle sees only (virtual time, bytes) at FakeSerial.write / FakeMqttClient.
publish and the call/return instants of write_frame.  Real constants throughout (no knob changes).
"""
from __future__ import annotations

import asyncio
import gc
import json

from .. import world  # noqa: F401
from ..vloop import T0
from ..runner import exc_sig

import ramses_tx.protocol as P
import ramses_tx.transport as T
from ramses_tx import exceptions as exc

GID = "18:006402"
RATE = 38400 * 0.01  # bits per second allowed (1 % of 38400)
BUCKET = RATE * 60
GAP = 0.05
MQ_TOKENS = 80
MQ_RATE = 80 / 60


def frame_of(i: int, nbytes: int) -> str:
    pl = (f"{i:04X}" + "A5" * 48)[: nbytes * 2]
    if nbytes == 1:
        pl = f"{i % 256:02X}"
    return f" I --- 18:000730 --:------ 18:000730 0008 {nbytes:03d} {pl}" if False else \
        f"RQ --- 18:000730 01:{i % 262143:06d} --:------ 2E04 {nbytes:03d} {pl}"


def bits(frame: str) -> int:
    return 330 + 10 * len(frame[46:])


def generate(plan) -> None:
    r = plan.rng("gen")
    k = plan.d["knobs"]
    sc = plan.d["scenario"]
    k["fault_free"] = False
    k["drift"] = 0.0
    ops = plan.d["ops"]
    t = 0.0
    i = 0
    n_tasks = r.randrange(1, 9)
    horizon = r.choice([60, 200, 600, 1200]) if sc == "serial" else r.choice([60, 200, 400])
    k["horizon"] = horizon
    size_mode = r.choice(["mixed", "long", "short", "mixed"])
    max_writes = 700 if sc == "serial" else 900

    def size():
        if size_mode == "long":
            return r.choice([24, 40, 48])
        if size_mode == "short":
            return r.choice([1, 2, 3])
        return r.choice([1, 2, 3, 6, 12, 24, 48])

    while t < horizon and i < max_writes:
        pat = r.choice(["burst", "burst", "steady_fast", "steady_slow", "idle", "pair", "concurrent"])
        if pat == "burst":
            n = r.choice([3, 10, 30, 80, 170] if sc == "serial" else [10, 60, 170, 300])
            for _ in range(min(n, max_writes - i)):
                ops.append({"op": "write", "at": round(t, 4), "task": r.randrange(n_tasks), "n": size(), "id": i})
                i += 1
                t += r.choice([0.0, 0.0, 0.001])
        elif pat == "concurrent":
            for tk in range(n_tasks):
                if i < max_writes:
                    ops.append({"op": "write", "at": round(t, 4), "task": tk, "n": size(), "id": i})
                    i += 1
            t += r.choice([0.0, 0.02, 0.5])
        elif pat in ("steady_fast", "steady_slow"):
            period = r.choice([0.02, 0.05, 0.2, 0.5]) if pat == "steady_fast" else r.choice([1.2, 3.0, 6.0])
            for _ in range(r.randrange(5, 60)):
                if i >= max_writes or t > horizon:
                    break
                ops.append({"op": "write", "at": round(t, 4), "task": r.randrange(n_tasks), "n": size(), "id": i})
                i += 1
                t += period
        elif pat == "pair":
            for _ in range(2):
                if i < max_writes:
                    ops.append({"op": "write", "at": round(t, 4), "task": r.randrange(n_tasks), "n": size(), "id": i})
                    i += 1
            t += r.choice([0.04, 0.1, 0.3])
        else:
            t += r.choice([0.12, 1.0, 20.0, 70.0, 200.0])
    if sc == "serial" and r.random() < 0.6:
        period = r.choice([120.0, 185.0, 300.0])
        ts = r.uniform(0, 30)
        while ts < horizon + 30:
            ops.append({"op": "sync", "at": round(ts, 3), "secs": period})
            ts += period
    if sc == "mqtt":
        for d in ops:
            if d["op"] == "write" and r.random() < 0.03:
                d["no_limits"] = True
        rb = plan.rng("gen/bounce")  # the gateway's status topic goes offline / online again (or its retained 'online' is re-delivered)
        ws = [d["at"] for d in ops if d["op"] == "write"]
        if ws and rb.random() < 0.4:
            for _ in range(rb.choice([1, 2, 4])):
                ops.append({"op": "bounce", "at": round(rb.choice(ws) + rb.choice([0.0, 0.3, 2.0]), 3), "off": rb.choice([True, True, False])})
    if sc == "serial":  # the application stops and restarts the gateway on the same port (a reconnect): the regulation carries over
        rr = plan.rng("gen/reopen")
        ws = [d["at"] for d in ops if d["op"] == "write"]
        if ws and rr.random() < 0.25:
            ops.append({"op": "reopen", "at": round(rr.choice(ws) + rr.choice([0.0, 0.2, 3.0]), 3)})
    if sc == "serial":  # a few callers pass disable_tx_limits=True (part of the public signature): a serial port still regulates them
        rn = plan.rng("gen/nolimits")
        p_nl = rn.choice([0.0, 0.0, 0.05, 0.5])
        for d in ops:
            if d["op"] == "write" and rn.random() < p_nl:
                d["no_limits"] = True
    if sc == "serial":  # a busy host: the loop services its timers late while writes are queued (own stream: other draws keep)
        rs = plan.rng("gen/stall")
        ws = [d["at"] for d in ops if d["op"] == "write"]
        if ws and rs.random() < 0.5:
            for _ in range(rs.choice([1, 1, 2, 4])):
                ops.append({"op": "stall", "at": round(rs.choice(ws) + rs.choice([0.0, 0.01, 0.06, 0.3, 1.0]), 4),
                            "dur": rs.choice([0.12, 0.3, 0.5, 1.0, 3.0])})


class _NoTransport:
    async def write_frame(self, frame, disable_tx_limits: bool = False) -> None:
        raise exc.TransportError("the gateway is restarting")

    def close(self) -> None:
        pass


class Sim:
    def __init__(self, ctx) -> None:
        self.ctx = ctx
        self.calls: dict[int, dict] = {}
        self.pending: dict[int, asyncio.Task] = {}
        self.out: list[tuple[float, str]] = []

    def now(self):
        return self.ctx.loop.time()


async def run(ctx) -> None:
    sc = ctx.plan.d["scenario"]
    if sc == "serial":
        await run_serial(ctx)
    else:
        await run_mqtt(ctx)
    gc.collect()
    for e in ctx.loop_excs:
        ctx.violate("C11", "loop_exc", e["sig"], f"unhandled in the loop: {e['type']}: {e['text']}")


async def writer_task(sim: Sim, tr, todo: list[dict], t_start: float) -> None:
    loop = sim.ctx.loop
    box = tr if isinstance(tr, list) else [tr]
    for d in todo:
        delay = t_start + d["at"] - loop.time()
        if delay > 0:
            await asyncio.sleep(delay)
        fr = frame_of(d["id"], d["n"])
        ent = sim.calls[d["id"]] = {"frame": fr, "call": loop.time(), "ret": None, "exc": None, "seq": len(sim.ctx.events)}
        sim.ctx.ev("call", d["id"])
        wt = loop.create_task(box[0].write_frame(fr, disable_tx_limits=True) if d.get("no_limits") else box[0].write_frame(fr))
        sim.pending[d["id"]] = wt
        try:
            try:
                await wt
            except asyncio.CancelledError:
                if not wt.cancelled():
                    raise
                ent["exc"] = "abandoned_when_the_transport_was_closed"
        except exc.TransportError as err:
            ent["exc"] = type(err).__name__
        except Exception as err:  # noqa
            ent["exc"] = exc_sig(err)
            sim.ctx.violate("C11", "write_raised", exc_sig(err), f"write_frame({fr!r}) raised {type(err).__name__}: {err}")
        ent["ret"] = loop.time()


async def run_serial(ctx) -> None:
    plan, loop, hub = ctx.plan, ctx.loop, ctx.hub
    sim = Sim(ctx)
    ser = hub.add_port("/dev/sim0", GID)
    connected = [False]

    def echo(ser_, frame: bytes, nth: int):
        f = frame.decode()
        if connected[0] and " 7FFF " not in f:
            sim.out.append((loop.time(), f))
            ctx.ev("w", f[46:50])
        return [0.01]

    hub.echo_policy = echo
    proto = P.protocol_factory(lambda m: None, disable_qos=True)
    tr = T.PortTransport(ser, proto, loop=loop)
    await proto.wait_for_connection_made(timeout=3)
    await asyncio.sleep(1.0)
    connected[0] = True
    t_start = loop.time()
    by_task: dict[int, list] = {}
    for d in plan.ops:
        if d["op"] == "write":
            by_task.setdefault(d["task"], []).append(d)
        elif d["op"] == "sync":
            secs = int(d["secs"] * 10)
            loop.call_at(t_start + d["at"], hub.rx_line, ser,
                         f" I --- 01:145038 --:------ 01:145038 1F09 003 FF{secs:04X}", 0.0)
            loop.call_at(t_start + d["at"] + 0.03, hub.rx_line, ser,
                         " I --- 01:145038 --:------ 01:145038 2309 006 0007D00107D0", 0.0)
    for d in plan.ops:
        if d["op"] == "stall":
            loop.add_stall(t_start + d["at"], d["dur"])
    box = [tr]

    async def reopen(at: float) -> None:
        await asyncio.sleep(max(0.0, t_start + at - loop.time()))
        for _ in range(40000):  # (an orderly restart: no write_frame() call is left hanging in the transport that is closed)
            if all(e["ret"] is not None for e in sim.calls.values()):
                break
            await asyncio.sleep(0.05)
        else:
            return
        connected[0] = False
        old_tr, box[0] = box[0], _NoTransport()  # (while it restarts, the application has no transport to write to)
        old_tr.close()
        await asyncio.sleep(0.05)
        for wt in sim.pending.values():  # a call that slipped in at the very instant of the close hangs in the dead transport's gap
            if not wt.done():            # semaphore (its leaker task is gone): the application abandons it
                wt.cancel()
        await asyncio.sleep(0.15)
        ser.is_open = True
        proto2 = P.protocol_factory(lambda m: None, disable_qos=True)
        box[0] = T.PortTransport(ser, proto2, loop=loop)
        await proto2.wait_for_connection_made(timeout=30)  # (a stalled loop may hold the handshake up)
        connected[0] = True
        hub.count("transport_reopened")

    reopeners = [loop.create_task(reopen(d["at"])) for d in plan.ops if d["op"] == "reopen"]
    tasks = [loop.create_task(writer_task(sim, box, todo, t_start)) for todo in by_task.values()]
    n_calls = sum(len(v) for v in by_task.values())
    total_bits = sum(bits(frame_of(d["id"], d["n"])) for v in by_task.values() for d in v)
    drain = total_bits / RATE + n_calls * GAP + plan.knob("horizon", 60) + 120 + sum(d["dur"] for d in plan.ops if d["op"] == "stall")
    done, pending = await asyncio.wait(tasks, timeout=drain) if tasks else (set(), set())
    if pending:
        ctx.violate("C11", "never_written", "", f"{len(pending)} writer tasks still blocked after {drain:.0f}s "
                    f"(all accepted frames must eventually be written)")
        for t in pending:
            t.cancel()
    for t in done:
        if t.exception() is not None:
            raise t.exception()
    await asyncio.sleep(1.0)
    for t in reopeners:  # (an orderly restart runs to its end: closing a transport that is still connecting is not what is tested)
        if not t.done():
            try:
                await asyncio.wait_for(t, 120)
            except Exception:  # noqa
                pass
    box[0].close()
    await asyncio.sleep(0.1)

    # ---- oracles over the write history -------------------------------------------------
    # what was handed to serial.write(), byte for byte (before the firmware touches it)
    out = []
    for (t, name, data) in hub.writes:
        if t < t_start or b" 7FFF " in data:
            continue
        if not data.endswith(b"\r\n") or data.count(b"\r\n") != 1:
            ctx.violate("C11", "conservation", "framing", f"serial.write() got {data!r}: not exactly one CRLF-terminated frame")
        out.append((t - t_start, data.decode("latin-1").rstrip("\r\n")))
    # conservation: each accepted call -> exactly one write of exactly that frame
    want = {e["frame"]: i for i, e in sim.calls.items() if e["exc"] is None}
    seen: dict[str, int] = {}
    for t, f in out:
        seen[f] = seen.get(f, 0) + 1
        if f not in want:
            ctx.violate("C11", "conservation", "altered_or_unknown", f"a frame nobody asked for was written at {t:.3f}: {f!r}")
            break
    for f, i in want.items():
        c = seen.get(f, 0)
        if c != 1:
            ctx.violate("C11", "conservation", "lost" if c == 0 else "duplicated", f"frame of call {i} written {c} times: {f!r}")
            break
    call_of = {e["frame"]: e["call"] - t_start for e in sim.calls.values() if e["exc"] is None}
    write_t = {f: t for t, f in out}
    # order: writes appear in acceptance (call) order
    pos = {f: n for n, (t, f) in enumerate(out)}
    calls_sorted = sorted((e["seq"], e["frame"]) for e in sim.calls.values() if e["exc"] is None and e["frame"] in pos)
    last = -1
    for _, f in calls_sorted:
        if pos[f] < last:
            other = out[last][1]  # called before f, yet written after it
            # the duty-cycle limiter makes every caller sleep on its own, without a queue: when it is throttling
            # (a frame is held back noticeably longer than the inter-write gap explains) a later call can overtake
            # the duty-cycle limiter makes every caller sleep on its own, without a queue, whenever the balance is
            # short: then a later call can overtake.  If everything offered in this run fits into one bucket the
            # limiter never sleeps, and a reordering cannot be its doing.
            kind = "reordered_unthrottled" if total_bits <= BUCKET - 1300 else "limiter_no_fifo"
            ctx.violate("C11", "order", kind, f"write order differs from call order: {f[46:50]}.. ({bits(f)} bits, called later) "
                        f"was written before {other[46:50]}.. ({bits(other)} bits, called earlier)")
            break
        last = max(last, pos[f])
    # duty cycle over every window
    n = len(out)
    ts = [t for t, _ in out]
    bs = [bits(f) for _, f in out]
    pre = [0]
    for b in bs:
        pre.append(pre[-1] + b)
    call_t = sorted((e["call"] - t_start, bits(e["frame"]), e["frame"]) for e in sim.calls.values() if e["exc"] is None)
    write_t = {f: t for t, f in out}
    worst = None
    # P[k]: bits of the *other* frames already accepted and still waiting in the regulator when write k
    # happens -- each of them passed (or will pass) the bucket test on the same stale balance, so the
    # bucket may be overdrawn by one frame per such pending write (the statement's last allowance term)
    PEND = []
    call_of = {f: ct for (ct, b, f) in call_t}
    for k in range(n):
        fk = out[k][1]
        at_write = sum(b for (ct, b, f) in call_t if f != fk and ct <= ts[k] + 1e-9 and write_t.get(f, 1e18) >= ts[k] - 1e-9)
        ck = call_of.get(fk, ts[k])  # the bucket test happens when write_frame() is called
        at_call = sum(b for (ct, b, f) in call_t if f != fk and ct <= ck + 1e-9 and write_t.get(f, 1e18) >= ck - 1e-9)
        PEND.append(max(at_write, at_call))
    for i in range(n):
        pmax = 0
        for j in range(i, n):
            pmax = max(pmax, PEND[j])
            used = pre[j + 1] - pre[i]
            allow = RATE * (ts[j] - ts[i]) + BUCKET + pmax + 1e-6
            if used > allow and (worst is None or used - allow > worst[0]):
                worst = (used - allow, i, j, used, allow, pmax)
    stalled = any(d["op"] == "stall" for d in plan.ops)
    if worst is not None and stalled:
        # with the loop serviced late, callers whose limiter sleeps matured during the stall are released together on one stale
        # balance; how many frames may then be 'already pending' per window is not something the statement pins down (the excess seen
        # is below one frame): the duty cycle is judged in the runs without stalls, the write spacing in all of them
        ctx.probe("duty_cycle_not_judged_in_a_run_with_stalls")
    elif worst is not None:
        _, i, j, used, allow, pend = worst
        ctx.violate("C11", "duty_cycle", "", f"{used} bits written in [{ts[i]:.2f},{ts[j]:.2f}] s > allowance {allow:.0f} "
                    f"(= 384 b/s x {ts[j] - ts[i]:.2f} s + bucket {BUCKET:.0f} + pending {pend})")
    # write spacing: never more than one extra write in any window
    for i in range(n):
        for j in range(i + 1, min(n, i + 400)):
            L = ts[j] - ts[i]
            cnt = j - i + 1
            if cnt > L / GAP + 2 + 1e-6:
                ctx.violate("C11", "write_gap", "", f"{cnt} writes within {L:.4f} s (from t={ts[i]:.3f}): more than "
                            f"L/{GAP}+2 = {L / GAP + 2:.1f}")
                break
        else:
            continue
        break
    # long-run rate
    if n > 50 and ts[-1] - ts[0] > 600:
        duty = (pre[-1] - BUCKET) / (ts[-1] - ts[0]) / 38400
        ctx.probe("long_run")
    ctx.probe("writes", n)
    if any(e["ret"] - e["call"] > 1.0 for e in sim.calls.values() if e["ret"]):
        ctx.probe("writes_delayed_over_1s")
    ctx.ab(f"serial:{len(by_task)}")
    prev = None
    for d in plan.ops:
        if d["op"] == "write":
            g = "0" if prev is None else ("=" if d["at"] - prev < 0.002 else ("<" if d["at"] - prev < 0.06 else (">" if d["at"] - prev < 5 else "I")))
            ctx.ab(g + ("L" if d["n"] > 20 else "s"))
            prev = d["at"]
    ctx.nontrivial = n >= 3
    ctx.sample = {"scenario": "serial", "tasks": len(by_task), "calls": n_calls, "writes": n,
                  "first_writes": [(round(t, 3), f[41:60]) for t, f in out[:5]], "span_s": round(ts[-1] - ts[0], 1) if n else 0}


async def run_mqtt(ctx) -> None:
    from ..rf import FakeMqttClient, FakeMqttMessage

    plan, loop = ctx.plan, ctx.loop
    sim = Sim(ctx)
    FakeMqttClient.instances.clear()
    T.mqtt.Client = FakeMqttClient
    proto = P.protocol_factory(lambda m: None, disable_qos=True)
    tr = T.MqttTransport("mqtt://u:p@broker.local:1883", proto, loop=loop)
    cl = FakeMqttClient.instances[-1]
    cl.on_message(cl, None, FakeMqttMessage("RAMSES/GATEWAY/18:017804", b"online"))
    await proto.wait_for_connection_made(timeout=3)
    t_start = loop.time()
    by_task: dict[int, list] = {}
    for d in plan.ops:
        if d["op"] == "write":
            by_task.setdefault(d["task"], []).append(d)
    def bounce(off: bool) -> None:
        hub_count("mqtt_status_bounce")
        if off:
            cl.on_message(cl, None, FakeMqttMessage("RAMSES/GATEWAY/18:017804", b"offline"))
        cl.on_message(cl, None, FakeMqttMessage("RAMSES/GATEWAY/18:017804", b"online"))

    hub_count = ctx.hub.count
    for d in plan.ops:
        if d["op"] == "bounce":
            loop.call_at(t_start + d["at"], bounce, d.get("off", True))
    tasks = [loop.create_task(writer_task(sim, tr, todo, t_start)) for todo in by_task.values()]
    done, pending = await asyncio.wait(tasks, timeout=plan.knob("horizon", 60) + 600) if tasks else (set(), set())
    if pending:
        ctx.violate("C11", "mqtt_writer_stuck", "", f"{len(pending)} writer tasks never returned")
        for t in pending:
            t.cancel()
    for t in done:
        if t.exception() is not None:
            raise t.exception()
    await asyncio.sleep(2.0)
    pubs = [(t - t_start, json.loads(p)["msg"]) for (t, topic, p) in cl.published]
    limited = {e["frame"] for i, e in sim.calls.items()
               if not next(d for v in by_task.values() for d in v if d["id"] == i).get("no_limits")}
    # every call returns promptly: a write is delayed < ~1 s or dropped, never queued without bound
    for i, e in sim.calls.items():
        if e["ret"] is not None and e["ret"] - e["call"] > 1.0 + 1e-6:
            ctx.violate("C11", "mqtt_queued", "", f"write_frame call {i} took {e['ret'] - e['call']:.2f}s (> 1 s): over-budget "
                        f"writes must be dropped, not queued")
            break
    # conservation for what was published
    cnt: dict[str, int] = {}
    for t, f in pubs:
        cnt[f] = cnt.get(f, 0) + 1
    frames = {e["frame"] for e in sim.calls.values()}
    for f, c in cnt.items():
        if f not in frames:
            ctx.violate("C11", "conservation", "altered_or_unknown", f"published a frame nobody asked for: {f!r}")
            break
        if c > 1:
            ctx.violate("C11", "conservation", "duplicated", f"{f!r} published {c} times")
            break
    # token allowance over every window (only rate-limited writes count)
    lt = [t for t, f in pubs if f in limited]
    n = len(lt)
    for i in range(n):
        for j in range(i, n):
            c = j - i + 1
            allow = MQ_RATE * (lt[j] - lt[i]) + 2 * MQ_TOKENS + 1 + 1e-6
            if c > allow:
                ctx.violate("C11", "mqtt_tokens", "", f"{c} publishes in [{lt[i]:.2f},{lt[j]:.2f}] s > token allowance {allow:.1f} "
                            f"(80/60 s x window + initial 160)")
                break
        else:
            continue
        break
    # reference token bucket (the documented scheme: 80 tokens per 60 s; a one-off start-up allowance of 160 that shrinks as it is
    # used and never comes back; a write that would have to wait >= 1 s is dropped; un-limited writes still cost a token),
    # replayed over the calls in the order they were made
    tokens = mx = 2.0 * MQ_TOKENS
    t_prev = None
    published = set(cnt)
    for i, e in sim.calls.items():  # insertion order = call order
        d = next(d for v in by_task.values() for d in v if d["id"] == i)
        t_prev = t_start if t_prev is None else t_prev
        tokens = min(tokens + (e["call"] - t_prev) * MQ_RATE, mx)
        t_prev = e["call"]
        unlimited = bool(d.get("no_limits"))
        if tokens < 1.0 - MQ_RATE and not unlimited:
            if e["frame"] in published:
                ctx.violate("C11", "mqtt_tokens", "over_budget_write_published", f"call {i} at {e['call'] - t_start:.2f} s found the bucket "
                            f"at {tokens:.2f} tokens (allowance {mx:.1f}): it must be dropped, but {e['frame']!r} was published")
                break
            continue
        tokens -= 1.0
        if mx > MQ_TOKENS:
            mx = max(min(mx, tokens), float(MQ_TOKENS))
        if e["frame"] not in published and e["exc"] is None:
            ctx.violate("C11", "conservation", "within_budget_write_dropped", f"call {i} at {e['call'] - t_start:.2f} s was within the "
                        f"allowance ({tokens + 1:.2f} tokens) but {e['frame']!r} was never published")
            break
    order_ok = [f for t, f in pubs]
    dropped = sum(1 for e in sim.calls.values() if e["frame"] not in cnt)
    ctx.probe("mqtt_dropped", dropped)
    ctx.probe("mqtt_published", len(pubs))
    tr.close()
    await asyncio.sleep(0.1)
    ctx.ab(f"mqtt:{len(by_task)}:{dropped > 0}")
    prev = None
    for d in plan.ops:
        if d["op"] == "write":
            g = "0" if prev is None else ("=" if d["at"] - prev < 0.002 else ("<" if d["at"] - prev < 0.75 else (">" if d["at"] - prev < 5 else "I")))
            ctx.ab(g)
            prev = d["at"]
    ctx.nontrivial = len(pubs) >= 3
    ctx.sample = {"scenario": "mqtt", "calls": len(sim.calls), "published": len(pubs), "dropped": dropped}


def on_hang(ctx, where: str, pending: list[str]) -> None:
    ctx.violate("C11", "hang", where, f"event loop ran dry at {where}; pending={pending}")


def on_wedge(ctx, desc: str) -> None:
    ctx.violate("C11", "wedged", desc.split("(")[0], desc)
