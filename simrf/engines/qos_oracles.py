"""History oracles for the qos engine: C08 (transmission discipline), C06 (correlation),
C09 (quiescence + probe + loop exception handler)."""
from __future__ import annotations

import asyncio

from ..vloop import T0

from ramses_tx import Command, exceptions as exc
from ramses_tx.typing import QosParams

DISRUPTIVE = ("disconnect", "write_error", "read_error", "pause", "cancel")


def _disrupted(sim) -> bool:
    return any(d["op"] in DISRUPTIVE for d in sim.plan.ops)


def _stall_total(sim) -> float:
    return sum(d["dur"] for d in sim.plan.ops if d["op"] == "stall")


def oracle_c08(sim) -> None:
    ctx = sim.ctx
    k = sim.plan.knob
    min_gap = k("min_gap", 0.05)
    limits = k("limits", False)
    tol = min_gap + 0.012 + _stall_total(sim)
    disrupted = _disrupted(sim)
    ops = [o for o in sim.ops.values() if o.call_t is not None]

    for op in ops:
        W = len(op.writes)
        limit = 1 + min(op.d["max_retries"], 3)
        nrep = op.d["num_repeats"]
        eff_rep = 0 if (op.d["wfr"] and nrep) else nrep  # library zeroes repeats when a reply is awaited
        per_attempt = max(1, eff_rep)
        # 1. retry budget: never more
        if W > limit * per_attempt:
            ctx.violate("C08", "too_many_tx", "", f"op{op.id} {op.frame} max_retries={op.d['max_retries']} "
                        f"written {W} times > {limit}x{per_attempt}")
        # 3. nothing after the verdict
        if op.ret_t is not None and per_attempt == 1 and op.outcome[0] != "cancelled":
            late = [(w, s) for w, s in zip(op.writes, op.write_seq) if s > op.ret_seq]
            if late:
                # a write that was handed to the transport before the verdict and sat in the
                # inter-write-gap / duty-cycle regulator is a different thing from a
                # transmission *initiated* after the verdict
                n_before = sum(1 for (_, hs) in op.handoffs if hs < op.ret_seq)
                n_written_before = len(op.writes) - len(late)
                detail = "delayed_write" if n_before >= n_written_before + len(late) else "new_tx"
                ctx.violate("C08", "tx_after_verdict", detail,
                            f"op{op.id} {op.frame} verdict at {op.ret_t - T0:.4f} ({op.outcome[0]}) "
                            f"but written again at {[round(w - T0, 4) for w, _ in late]}")
        if per_attempt != 1 or W == 0 or op.ret_t is None:
            continue
        deadline = op.call_t + min(op.d["timeout"], 20.0)
        hts = [t for t, _ in op.handoffs] if len(op.handoffs) >= len(op.writes) else list(op.writes)
        gaps = [b - a for a, b in zip(hts, hts[1:])]
        btol = 0.012 + _stall_total(sim) if hts is not op.writes and len(op.handoffs) >= len(op.writes) else tol
        no_echo = not op.echo_rx or min(op.echo_rx) > op.ret_t
        no_reply = not [t for t, _ in op.reply_rx if t <= op.ret_t]
        answered_never = no_echo and no_reply and not op.collisions
        # 2. back-off (only meaningful with the limiter's bucket out of the picture)
        if not limits and not disrupted and answered_never:
            for i, g in enumerate(gaps):
                if not any(abs(g - e) <= btol for e in (0.5, 1.0, 2.0, 4.0)):
                    ctx.violate("C08", "backoff_value", "", f"op{op.id} {op.frame} wait {g:.4f} before attempt {i + 2} "
                                f"is not 0.5/1/2/4 s (tol {btol:.3f}); handoffs={[round(w - T0, 4) for w in hts]}")
                    break
                if i > 0:
                    want = min(2 * gaps[i - 1], 4.0)
                    if abs(g - want) > 2 * btol and abs(gaps[i - 1] - 4.0) > btol:
                        ctx.violate("C08", "backoff_doubling", "", f"op{op.id} {op.frame} waits {gaps[i - 1]:.4f} then "
                                    f"{g:.4f}: not doubled")
                        break
        elif not limits and not disrupted and gaps and no_reply and not op.collisions:
            for g in gaps:
                if g < 0.5 - 1e-6 - (0 if btol < tol else tol):
                    ctx.violate("C08", "backoff_value", "early", f"op{op.id} {op.frame} retried after {g:.4f} s < 0.5 s")
                    break
        # 1b. retry budget: no fewer if the timeout allows
        awaited = op.rep is not None and bool(op.d["wfr"]) and k("disable_qos") is False
        starved = (no_echo or (awaited and no_reply)) and not op.collisions
        if starved and not disrupted and not limits and op.outcome[0] == "perr":
            ended_early = op.ret_t < deadline - 1e-6
            if ended_early and W < limit and not sim.hub.fault_counts.get("hgi80_drop"):
                # the sender may have used its whole budget at the hand-off to the transport while the frames were still waiting
                # behind the inter-write gap / duty-cycle regulator (KF1's mechanism): a different thing from giving up early
                n_handed = sum(1 for (_, hs) in op.handoffs if hs < op.ret_seq)
                n_written = sum(1 for s_ in op.write_seq if s_ < op.ret_seq)
                detail = "delayed_write" if n_handed >= limit > n_written else "gave_up"
                ctx.violate("C08", "too_few_tx", detail, f"op{op.id} {op.frame} max_retries={op.d['max_retries']} "
                            f"gave up at {op.ret_t - T0:.4f} (deadline {deadline - T0:.4f}) after {W} < {limit} tx "
                            f"({n_handed} handed to the transport, {n_written} on the wire before the verdict)")
            if not ended_early and W < limit and answered_never:
                last_gap = 4.0 if not gaps else min(2 * gaps[-1], 4.0)
                room = deadline - hts[-1]
                if room > last_gap + tol + 0.01:
                    ctx.violate("C08", "too_few_tx", "had_time", f"op{op.id} {op.frame} {W} < {limit} tx although "
                                f"{room:.3f}s remained after the last one (next wait {last_gap:.2f})")
            if W == limit:
                ctx.probe("retry_budget_exhausted")

    # 4. one in flight, 5. order  -- from the global sequence of first writes
    if disrupted:
        return
    firsts = sorted(((o.write_seq[0], o) for o in ops if o.writes), key=lambda x: x[0])
    for seq, op in firsts:
        if op.ret_seq is not None and seq > op.ret_seq:
            continue  # its first write came after its own verdict: a delayed write (reported as such), not a second command in flight
        for other in ops:
            if other is op or not other.writes or other.ret_seq is None:
                continue
            if other.write_seq[0] < seq < other.ret_seq:
                # `other` was written first and had no verdict yet when `op` was first written
                if max(1, 0 if (other.d["wfr"] and other.d["num_repeats"]) else other.d["num_repeats"]) != 1:
                    continue
                ctx.violate("C08", "two_in_flight", "", f"op{op.id} first written at seq {seq} while op{other.id} "
                            f"(written seq {other.write_seq[0]}) had no verdict until seq {other.ret_seq}")
                break
    for seq, op in firsts:
        if not op.handoffs:
            continue
        t_h, s_h = op.handoffs[0]
        qt_op = op.alert_exit if op.impersonates and op.alert_exit else op.call_t
        for y in ops:
            if y is op or y.call_t is None:
                continue
            if y.impersonates and y.alert_exit is None:
                continue
            qt = y.alert_exit if y.impersonates else y.call_t
            if qt >= t_h - 1e-9:  # not strictly earlier than the pick: could not have been seen
                continue
            if y.handoffs and y.handoffs[0][1] < s_h:  # already started
                continue
            if y.ret_t is not None and y.ret_t <= t_h + 1e-9:  # verdict (died in the queue) by then
                continue
            if not y.writes and y.outcome and y.outcome[0] == "perr" and y.ret_t == y.call_t:
                continue  # refused at once (overflow / paused): never queued
            if (y.d["prio"], qt) < (op.d["prio"], qt_op):
                ctx.violate("C08", "order", "", f"op{op.id} (prio {op.d['prio']}, queued {qt_op - T0:.4f}) picked at "
                            f"{t_h - T0:.4f} ahead of op{y.id} (prio {y.d['prio']}, queued {qt - T0:.4f})")
                return
    # overflow: refused at once only when the buffer really was full
    for op in ops:
        if op.outcome and op.outcome[0] == "perr" and "overflow" in (op.outcome[2] if len(op.outcome) > 2 else ""):
            ctx.probe("buffer_overflow")
            # upper bound of the buffer occupancy at the moment of refusal: every earlier call holds
            # at most one slot (its alert or itself) until it is handed to the transport
            outstanding = sum(1 for y in ops if y is not op and y.call_seq < op.ret_seq
                              and (not y.handoffs or y.handoffs[0][1] > op.ret_seq))
            if outstanding < 32:
                ctx.violate("C08", "overflow_early", "", f"op{op.id} refused for overflow with only {outstanding} queued")


def oracle_c06(sim) -> None:
    ctx = sim.ctx
    for op in sim.ops.values():
        if op.ret_t is None or op.outcome is None:
            continue
        kind = op.outcome[0]
        if kind == "pkt":
            got = op.outcome[1]
            if op.rep is None:
                if got != op.wire(sim.gid):
                    ctx.violate("C06", "echo_mismatch", "", f"{op.frame}: returned {got!r}, not its echo")
                else:
                    ctx.probe("echo_recognised")
            elif got in op.replies:
                ctx.probe("reply_recognised")
            elif got == op.wire(sim.gid):
                ctx.violate("C06", "reply_not_recognised", op.code, f"{op.frame}: reply awaited but the echo was returned")
            else:
                cls = sim.foreign_frames.get(got, "unknown")
                rel = sim.relation(op, got)
                if cls in ("requester", "rq_other") or rel:
                    ctx.probe("returned_" + (rel or cls) + "_collision")
                else:
                    ctx.violate("C06", "near_miss_taken", cls + (":W1FC9" if op.kind == "W1FC9" else ""),
                                f"{op.frame}: returned {got!r} (a {cls} near-miss)")
        elif kind == "perr":
            first_reply = min((t for t, _ in op.reply_rx), default=None)
            first_echo = min(op.echo_rx, default=None)
            order = "reply_before_echo" if (first_reply is not None and first_echo is not None
                                            and first_reply <= first_echo + 1e-9) else "in_order"
            ctx.violate("C06", "not_recognised", f"{op.kind}:{order}", f"{op.frame}: echo and genuine reply were delivered "
                        f"({sorted(op.replies)}) but send failed: {op.outcome}")
        elif kind == "other":
            ctx.violate("C06", "exception", op.outcome[1], f"{op.frame}: {op.outcome}")
        if op.ret_t - op.call_t > 1.0 and kind == "pkt":
            ctx.violate("C06", "late", op.code, f"{op.frame}: took {op.ret_t - op.call_t:.3f}s with prompt echo+reply")


# ---------------------------------------------------------------------------------------
# C09
# ---------------------------------------------------------------------------------------

async def quiesce_and_probe(sim) -> None:
    ctx = sim.ctx
    hub = sim.hub
    proto = sim.proto
    hub.quiet = True
    sim.ser.fail_write = sim.ser.fail_read = None
    sim.hub.echo_policy = lambda ser, frame, nth: [0.01]
    sim.hub.on_frame = None
    await asyncio.sleep(30.0)  # faults have stopped; let every timer of the episode mature

    connected = sim.disconnected_at is None and not sim.tr.is_closing()
    try:
        state = type(proto._context.state).__name__
        sending = proto._context.is_sending
        qsize = proto._context._que.qsize()
    except AssertionError as err:
        ctx.violate("C09", "fsm_assert", "is_sending", f"is_sending tripped after quiescence: {err}")
        state, sending, qsize = "?", None, -1
    ctx.ab(f"q:{state}")
    want = "IsInIdle" if connected else "Inactive"
    if state != "?" and state != want:
        ctx.violate("C09", "not_idle", f"{state}!={want}", f"after quiescence the FSM is {state}, expected {want}; {proto!r}")
    if sending:
        ctx.violate("C09", "still_sending", "", f"after quiescence is_sending is True: {proto._context!r}")

    # the probe: a fresh command to a responsive device
    if proto._pause_writing and sim.paused and sim.paused[-1][1] is None:
        # the episode's own pause (buffer high-water / gateway offline) was never followed by its resume: do that now
        if getattr(sim, "mqtt", False) and not sim.tr.is_closing():
            sim.ser.status(b"online")
            await asyncio.sleep(0.05)  # (the transport resumes the protocol through call_soon_threadsafe)
        else:
            proto.resume_writing()
    frame = f"RQ --- 18:000730 01:099999 --:------ 30C9 001 0B"
    reply = f"RP --- 01:099999 {sim.gid} --:------ 30C9 003 0B0789"
    # ... or an exchange whose packets are fine but which the message layer cannot make sense of (a data id / payload it does not
    # know): correlation is the sender's job and works on packets
    odd = sim.plan.decide("probe/kind", lambda r: r.choice(["plain", "plain", "ot_unknown_id", "odd_payload"]), "plain")
    if odd == "ot_unknown_id":
        frame = "RQ --- 18:000730 10:099999 --:------ 3220 005 00007E0000"
        reply = f"RP --- 10:099999 {sim.gid} --:------ 3220 005 00C07E1234"
    elif odd == "odd_payload":
        frame = "RQ --- 18:000730 01:099999 --:------ 2349 001 0B"
        reply = f"RP --- 01:099999 {sim.gid} --:------ 2349 008 0B07D000FFFFFF55"
    ctx.probe("probe_kind_" + odd)
    wire = frame[:7] + sim.gid + frame[16:]

    def responder(ser, fr, nth):
        if fr.decode() == wire:
            hub.rx_line(ser, reply, 0.03)

    hub.on_frame = responder
    t0 = sim.now()
    try:
        pkt = await asyncio.wait_for(
            proto.send_cmd(Command(frame), qos=QosParams(wait_for_reply=True, timeout=5, max_retries=0)), 30)
        if not connected:
            ctx.violate("C09", "probe", "sent_while_disconnected", f"probe returned {pkt} on a closed transport")
        elif str(pkt) not in (reply, wire):
            ctx.violate("C09", "probe", "wrong_pkt", f"probe returned {pkt}")
        elif sim.now() - t0 > 1.0:
            ctx.violate("C09", "probe", "slow", f"probe took {sim.now() - t0:.3f}s on an idle responsive link")
        else:
            ctx.probe("probe_ok")
    except exc.ProtocolError as err:
        if connected:
            ctx.violate("C09", "probe", "failed", f"probe to a responsive device failed after the episode: "
                        f"{type(err).__name__}: {err}; fsm={proto._context!r}")
        elif sim.now() - t0 > 0.01:
            ctx.violate("C09", "probe", "slow_refusal", f"inactive sender took {sim.now() - t0:.3f}s to refuse")
        else:
            ctx.probe("probe_refused_inactive")
    except TimeoutError:
        ctx.violate("C09", "probe", "hang", f"probe never completed; fsm={proto._context!r}")
    except Exception as err:  # noqa
        from ..runner import exc_sig

        ctx.violate("C09", "probe", "exc:" + exc_sig(err), f"probe raised {type(err).__name__}: {err}")
    await asyncio.sleep(1.0)
    if getattr(sim, "engine", None) is not None:
        try:
            await asyncio.wait_for(sim.engine.stop(), 30)
        except Exception as err:  # noqa  (stop() hands on the error the connection was lost with: not the sender's business)
            ctx.probe(f"engine_stop_raised_{type(err).__name__}")
    elif not sim.tr.is_closing():
        sim.tr.close()
    await asyncio.sleep(1.0)


SENDER_MODULES = ("protocol.", "protocol_fsm.", "transport.", "gateway.", "command.", "packet.", "frame.", "address.")


def judge_loop_exc(sim, e: dict) -> None:
    fn = e["sig"].split("@", 1)[1] if "@" in e["sig"] else ""
    if sim.plan.knob("api", "proto") == "gateway_task" and fn and not fn.startswith(SENDER_MODULES):
        # a whole Gateway also dispatches the (fabricated) replies to its devices and systems; what their handlers make of a
        # responder's made-up topology is not the send machinery's doing (C13/C15 look at that with real histories)
        sim.ctx.probe("device_handler_exception_(gateway_api,_not_judged)")
        return
    sim.ctx.violate("C09", "loop_exc", e["sig"], f"unhandled in the event loop at t={e['t']}: {e['message']}: "
                    f"{e['type']}: {e['text']}")
