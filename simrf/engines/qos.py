"""Engine `qos`: the send path (PortProtocol + ProtocolContext FSM + PortTransport) under a
scripted firmware/responder/adversary.  Scenarios: send (C07), burst (C08), episode (C09),
match (C06).  All oracles look only at: what callers got and when, what was written to
FakeSerial and when, the public FSM state, and the loop exception handler.
"""
from __future__ import annotations

import asyncio
import gc

from serial import SerialException  # type: ignore[import-untyped]

from .. import world  # noqa: F401  (installs clocks, imports the library)
from ..vloop import T0

import ramses_tx.protocol as P
import ramses_tx.transport as T
from ramses_tx import Command, exceptions as exc
from ramses_tx.const import Priority
from ramses_tx.typing import QosParams

GID = "18:123456"
PLACEHOLDER = "18:000730"
PRIOS = [4, 2, 0, -2, -4]
TIMEOUTS = [0.05, 0.3, 0.5, 1.0, 1.5, 2.0, 3.5, 7.5, 15.0, 20.0, 30.0]
ECHO_T = [0.5, 1.0, 2.0, 4.0]
EPS = [-0.002, -0.0005, 0.0, 0.0005, 0.002]
SLACK = 0.05


# ---------------------------------------------------------------------------------------
# command kinds: request frame + the genuine reply a conforming device would send.
# Written from the frame examples in the library's comments / the corpus, not by calling
# its constructors.  `z` is the context byte, `tag` a 16-bit value unique per transmission.
# ---------------------------------------------------------------------------------------

def _rp(src, dst, code, payload, verb="RP"):
    return f"{verb} --- {src} {dst} --:------ {code} {len(payload) // 2:03d} {payload}"


def _rq(src, dst, code, payload, verb="RQ"):
    return f"{verb} --- {src} {dst} --:------ {code} {len(payload) // 2:03d} {payload}"


KINDS = {
    # name: (dst type, request(z) -> (verb, code, payload), reply(z, tag) -> (verb, payload) | None, ctx space)
    "30C9": ("01", lambda z: ("RQ", "30C9", z), lambda z, t: ("RP", f"{z}{t:04X}"), "zone"),
    "2309": ("01", lambda z: ("RQ", "2309", z), lambda z, t: ("RP", f"{z}{t:04X}"), "zone"),
    "000A": ("01", lambda z: ("RQ", "000A", z), lambda z, t: ("RP", f"{z}10{t:04X}0DAC"), "zone"),
    "2349": ("01", lambda z: ("RQ", "2349", z), lambda z, t: ("RP", f"{z}{t:04X}00FFFFFF"), "zone"),
    "12B0": ("01", lambda z: ("RQ", "12B0", z), lambda z, t: ("RP", f"{z}0000"), "zone"),
    "0004": ("01", lambda z: ("RQ", "0004", f"{z}00"),
             lambda z, t: ("RP", f"{z}00" + "4B69746368656E" + "00" * 13), "zone"),
    "0418": ("01", lambda z: ("RQ", "0418", f"0000{z}"),
             lambda z, t: ("RP", f"00{('00', '40', 'C0')[t % 3]}{z}B0040400000000{t:04X}5A7AFFFF7000000001"), "log"),
    "000C": ("01", lambda z: ("RQ", "000C", z), lambda z, t: ("RP", f"{z}00{0x100000 + t:06X}"), "zr"),
    "0005": ("01", lambda z: ("RQ", "0005", z), lambda z, t: ("RP", f"{z}{t & 0x0FFF:04X}"), "zt"),
    "0418n": ("01", lambda z: ("RQ", "0418", f"0000{z}"),
              lambda z, t: ("RP", "000000B0000000000000000000007FFFFF7000000000"), "log"),
    "3220": ("10", lambda z: ("RQ", "3220", f"0000{z}0000"),
             lambda z, t: ("RP", f"00C0{z}{t:04X}"), "ot"),
    # z = zone idx + fragment number + schedule type (20 = a zone's, 23 = the DHW's, which is always 'zone' 00)
    "0404": ("01", lambda z: ("RQ", "0404", f"{z[:2]}{z[4:6]}000800{z[2:4]}00"),
             lambda z, t: ("RP", f"{z[:2]}{z[4:6]}000806{z[2:4]}03{t:04X}AABBCCDD"), "frag"),
    # a bind accept sent with wait_for_reply: the confirm comes from the supplicant, addressed to us
    "W1FC9": ("34", lambda z: (" W", "1FC9", f"{z}230906368E"), lambda z, t: (" I", f"{z}2309{0x8C0000 + t:06X}"), "zone"),
    "W2309": ("01", lambda z: (" W", "2309", f"{z}07D0"), lambda z, t: (" I", f"{z}07D0"), "zone"),
    "1F09": ("01", lambda z: ("RQ", "1F09", "00"), lambda z, t: ("RP", f"00{t:04X}"), "none"),
    "313F": ("01", lambda z: ("RQ", "313F", "00"), lambda z, t: ("RP", "00FC0029D6050B07E7"), "none"),
    # an announcement from the gateway's own address: echo only (z = a value byte that makes the frame unique; the index is 00)
    "GI0008": ("18", lambda z: (" I", "0008", f"00{z}"), None, "own"),
    "GI30C9": ("18", lambda z: (" I", "30C9", f"0008{z}"), None, "own"),
    "I30C9": ("03", lambda z: (" I", "30C9", "000834"), None, "imp"),  # impersonation, no reply
    "I0008": ("13", lambda z: (" I", "0008", "00C8"), None, "imp"),
}


DOMAIN_ROLES = ["000D", "000E", "010E", "000F"]


def ctx_values(space: str, r) -> str:
    if space == "own":
        return f"{r.randrange(0xC9):02X}"
    if space == "zone":
        return f"{r.randrange(12):02X}"
    if space == "log":
        return f"{r.randrange(0x3F):02X}"
    if space == "ot":
        return f"{r.choice([0, 1, 3, 5, 17, 18, 19, 25, 26, 27, 28, 56, 57, 115, 116, 120, 127]):02X}"
    if space == "frag":
        zi = r.choice([0, 0, r.randrange(12)])
        return f"{zi:02X}{r.randrange(1, 4):02X}{'23' if (zi == 0 and r.random() < 0.5) else '20'}"
    if space == "zr":  # zone idx + device role; or a domain's role: DHW sensor / DHW valve / heating valve / appliance control
        if r.random() < 0.3:
            return r.choice(DOMAIN_ROLES)
        return f"{r.randrange(12):02X}{r.choice(['00', '04', '08', '09', '0A', '0B', '11'])}"
    if space == "zt":  # 00 + zone type
        return f"00{r.choice(['04', '08', '09', '0A', '0B', '11', '0D', '0E', '0F'])}"
    return "00"


def other_ctx(space: str, z: str, r) -> str | None:
    # bias to the special contexts: index 00 (null / default entries live there) and neighbours
    if space in ("zone", "log", "ot") and r.random() < 0.5:
        cands = [c for c in ("00", f"{(int(z, 16) + 1) % 12:02X}", f"{(int(z, 16) - 1) % 12:02X}") if c != z]
        if cands:
            return r.choice(cands[:1] * 3 + cands[1:])
    if space == "zr" and z in DOMAIN_ROLES:  # another role of the hot-water / system domains (they share index 00)
        return r.choice([x for x in DOMAIN_ROLES if x != z])
    if space == "zr" and r.random() < 0.6:  # same zone, another role
        alt = [z[:2] + x for x in ("00", "04", "08", "0A") if z[:2] + x != z]
        return r.choice(alt)
    if space == "frag" and r.random() < 0.7:
        alt = [z[:2] + f"{(int(z[2:4], 16) % 3) + 1:02X}" + z[4:6], ("00" if z[:2] != "00" else "01") + z[2:4] + "20"]
        if z[:2] == "00":  # the same fragment of the *other* schedule that lives under index 00 (zone 00's vs the DHW's)
            alt += [z[:4] + ("23" if z[4:6] == "20" else "20")] * 3
        alt = [a for a in alt if a != z]
        if alt:
            return r.choice(alt)
    for _ in range(20):
        y = ctx_values(space, r)
        if y != z:
            return y
    return None


class Op:
    def __init__(self, d: dict) -> None:
        self.d = d
        self.id = d["id"]
        self.kind = d["kind"]
        dtype, req, rep, space = KINDS[self.kind]
        self.space = space
        self.z = d["z"]
        self.dst = d["dst"]
        verb, code, payload = req(self.z)
        self.verb, self.code, self.payload = verb, code, payload
        self.src = d.get("src", PLACEHOLDER)
        if verb == " I" and rep is None:  # announcements from a faked device / the gateway itself: src == dst
            self.frame = f"{verb} --- {self.src} --:------ {self.src} {code} {len(payload) // 2:03d} {payload}"
        else:
            self.frame = _rq(self.src, self.dst, code, payload, verb)
        self.rep = rep
        self.impersonates = self.src != PLACEHOLDER
        # history
        self.call_t = None
        self.ret_t = None
        self.outcome = None  # ("pkt", str) | ("perr", type) | ("other", desc) | ("cancelled",)
        self.writes: list[float] = []
        self.write_seq: list[int] = []
        self.call_seq = None
        self.ret_seq = None
        self.echo_rx: list[float] = []
        self.reply_rx: list[tuple[float, str]] = []
        self.replies: set[str] = set()
        self.alert_enter = None
        self.alert_exit = None
        self.collisions = 0  # documented-collision frames (same header, other requester) injected for this op
        self.handoffs: list[tuple[float, int]] = []  # (t, seq) when the frame was handed to the transport

    def wire(self, gid: str) -> str:
        """The frame as the firmware transmits/echoes it (addr0 placeholder substituted)."""
        if self.frame[7:16] == PLACEHOLDER:
            return self.frame[:7] + gid + self.frame[16:]
        return self.frame

    def reply_frame(self, gid: str, tag: int, z: str | None = None, src: str | None = None,
                    dst: str | None = None) -> str | None:
        if self.rep is None:
            return None
        verb, payload = self.rep(z if z is not None else self.z, tag)
        rq_src = gid if self.src == PLACEHOLDER else self.src
        return _rp(src or self.dst, dst or rq_src, self.code, payload, verb)


# ---------------------------------------------------------------------------------------
# generation
# ---------------------------------------------------------------------------------------

def generate(plan) -> None:
    sc = plan.d["scenario"]
    if sc == "twins":
        from . import qos_twins

        return qos_twins.generate(plan)
    r = plan.rng("gen")
    k = plan.d["knobs"]
    k["fw"] = r.choice(["evofw3", "evofw3", "evofw3", "hgi80"])
    k["gid"] = r.choice(["18:123456", "18:000001", "18:262143", "18:006402", "18:198151"])
    k["disable_qos"] = r.choice([False, False, None, True])
    k["limits"] = r.random() < 0.3
    k["min_gap"] = r.choice([0.05, 0.05, 0.1, 0.25])
    k["drift"] = r.choice([0.0, 2e-4, -2e-4])
    fault_free = r.random() < 0.15
    k["p_echo_lost"] = 0.0 if fault_free else r.choice([0.0, 0.1, 0.3, 0.6, 1.0])
    k["p_reply_none"] = 0.0 if fault_free else r.choice([0.0, 0.2, 0.5, 1.0])
    k["p_near_timer"] = 0.0 if fault_free else r.choice([0.0, 0.2, 0.5])
    k["p_dup"] = 0.0 if fault_free else r.choice([0.0, 0.1, 0.3])
    k["tie_rate"] = 0.0 if fault_free else r.choice([0.0, 0.5])
    k["split_rate"] = 0.0 if fault_free else r.choice([0.0, 0.0, 0.3])
    k["fault_free"] = fault_free
    ops = plan.d["ops"]
    used = set()

    if sc == "burst":
        n_callers, per = 1, r.choice([4, 8, 16, 33, 36])
        k["disable_qos"] = r.choice([False, None])
    elif sc == "match":
        n_callers, per = 1, r.randrange(1, 4)
        k["p_echo_lost"] = k["p_reply_none"] = k["p_near_timer"] = k["p_dup"] = 0.0
        k["fw"] = "evofw3"
        k["disable_qos"] = False
        k["adversary"] = not fault_free
        k["p_slow"] = 0.0
    else:
        n_callers, per = r.randrange(1, 7), r.randrange(1, 5)
        k["adversary"] = (not fault_free) and r.random() < 0.4

    oid = 0
    kinds = list(KINDS)
    for c in range(n_callers):
        t = r.choice([0.0, 0.0, 0.001, 0.1, 0.5, 1.0, 2.0])
        for _ in range(per if sc == "burst" else r.randrange(1, per + 1)):
            for _try in range(50):
                kind = r.choice(kinds)
                dtype, req, rep, space = KINDS[kind]
                z = ctx_values(space, r)
                dst = f"{dtype}:{r.choice([145038, 145039, 220768]):06d}" if space != "own" else k["gid"]
                # (announcements from the gateway's own address share one header per code whatever they say: one of a kind per run,
                #  or the late echo of the first would be -- legitimately -- taken for the echo of the second)
                key = (kind, "", "") if space == "own" else (kind[:4] if kind.startswith("0418") else kind, z, dst)
                if key not in used:
                    used.add(key)
                    break
            else:
                continue
            d = {"op": "send", "id": oid, "caller": c, "at": round(t, 4), "kind": kind, "z": z, "dst": dst,
                 "prio": r.choice(PRIOS), "max_retries": r.choice([0, 1, 2, 3, 3, 5]),
                 "timeout": r.choice(TIMEOUTS), "wfr": r.choice([None, False, True, True]),
                 "num_repeats": r.choice([0, 0, 0, 1, 3])}
            if space == "imp":
                d["src"] = dst
            elif space == "own":  # under the dongle's real address (the library announces that with a 7FFF alert first, as for any
                d["src"] = k["gid"]  # non-placeholder source)
            elif kind == "W1FC9":  # an accept is sent on behalf of the (faked) respondent, never from the gateway's own address
                d["src"] = r.choice(["30:111111", "07:045960", "01:220768"])
            elif sc != "match" and r.random() < 0.06:
                d["src"] = r.choice(["30:111111", "07:045960"])  # impersonated requester
            ops.append(d)
            oid += 1
            if sc == "burst":
                t += r.choice([0.0, 0.0, 0.0, 0.01])
            else:
                t += r.choice([0.0, 0.0, 0.05, 0.6, 3.0])  # next call of this caller (relative spacing)
    if sc == "burst":
        for d in ops:
            d["caller"] = d["id"]  # every call its own task: they queue up concurrently
            d["timeout"] = r.choice([1.0, 3.5, 7.5, 20.0, 30.0])

    # transport: a serial dongle, or (send/episode/burst) a ramses_esp gateway behind an MQTT broker.  Drawn from its own stream.
    rt = plan.rng("gen/tr")
    if sc in ("send", "episode", "burst") and rt.random() < 0.2:
        k["tr"] = "mqtt"
        k["fw"] = "evofw3"
        k["split_rate"] = 0.0
        # limits=False: the token bucket is made bottomless (the C08 count/back-off oracles apply); True: the real bucket,
        # found at a drawn level (a write that finds < 1 token is dropped by design: C07/C09 still apply, C08's counts do not)
        k["limits"] = rt.random() < 0.3
        k["mqtt_tokens"] = rt.choice([160, 160, 40, 8, 2, 0.5])
        k["mqtt_retained_offline"] = rt.random() < 0.3
    # which layer the callers use: the protocol's send_cmd (as the library's own layers do), the Engine's async_send_cmd, or the
    # Gateway's send_cmd wrapper that returns a Task (no max_retries parameter there: the default of 3 applies)
    if sc in ("send", "episode", "burst") and k.get("tr") != "mqtt":
        k["api"] = rt.choice(["proto", "proto", "proto", "engine", "engine", "gateway_task"])
        if k["api"] == "gateway_task":
            for d in ops:
                if d["op"] == "send":
                    d["max_retries"] = 3
    if sc in ("send", "episode") and k.get("tr") != "mqtt" and not fault_free:
        x = rt.random()
        k["sig_echo"] = "never" if x < 0.06 else ("late" if x < 0.15 else "ok")
        k["sig_nth"] = rt.choice([2, 5, 20, 39, 40])
    horizon = max((d["at"] for d in ops), default=0) + 5.0
    if not fault_free and sc in ("send", "episode", "burst"):
        for _ in range(r.choice([0, 0, 1, 2, 3])):
            ops.append({"op": "stall", "at": round(r.uniform(0, horizon), 4),
                        "dur": r.choice([0.001, 0.01, 0.1, 0.6, 1.2, 3.0])})
        if r.random() < 0.25:
            t = round(r.uniform(0, horizon), 4)
            ops.append({"op": "pause", "at": t})
            if r.random() < 0.8:
                ops.append({"op": "resume", "at": round(t + r.choice([0.01, 0.4, 2.0, 9.0]), 4)})
        if r.random() < 0.15:
            ops.append({"op": "write_error", "at": round(r.uniform(0, horizon), 4)})
        if r.random() < 0.1:
            ops.append({"op": "read_error", "at": round(r.uniform(0, horizon), 4)})
        if r.random() < 0.15:
            ops.append({"op": "disconnect", "at": round(r.uniform(0, horizon), 4),
                        "how": r.choice(["close", "abort"])})
        for _ in range(r.choice([0, 0, 1, 3, 6])):
            ops.append({"op": "foreign", "at": round(r.uniform(0, horizon), 4), "ref": r.randrange(max(1, oid)),
                        "what": r.choice(["code", "verb", "dev", "ctx", "requester", "unrelated"])})
    if sc == "episode" and not fault_free:
        if r.random() < 0.3:
            ops.append({"op": "cancel", "at": round(r.uniform(0, horizon), 4), "caller": r.randrange(n_callers)})
        if r.random() < 0.2:
            ops.append({"op": "late_bytes", "after_close": round(r.choice([0.0, 0.001, 0.5]), 4)})
    if sc == "match":
        for d in [d for d in ops if d["op"] == "send"]:
            d["wfr"] = True
            d["timeout"] = 20.0
            d["max_retries"] = 0
            d["num_repeats"] = 0


# ---------------------------------------------------------------------------------------
# the simulation
# ---------------------------------------------------------------------------------------

class QosSim:
    def __init__(self, ctx) -> None:
        self.ctx = ctx
        self.plan = ctx.plan
        self.hub = ctx.hub
        self.loop = ctx.loop
        self.ops = {d["id"]: Op(d) for d in self.plan.ops if d["op"] == "send"}
        self.by_wire: dict[str, Op] = {}
        self.all_writes: list[tuple[float, str, str]] = []  # (t, kind: cmd|alert|sig, frame)
        self.first_write_order: list[int] = []
        self.connected = False
        self.disconnected_at = None
        self.paused = []
        self.proto = None
        self.tr = None
        self.ser = None
        self.tag = 0x0100
        self.gid = self.plan.knob("gid", GID)
        self.alert_n = 0
        self.returned_foreign = []
        self.foreign_frames: dict[str, str] = {}  # frame text -> class
        self.tasks = {}
        self.inflight_faults = 0
        self.cancelled_callers: set[int] = set()
        self.engine = None

    def now(self) -> float:
        return self.loop.time()

    # -- firmware / responder policies ---------------------------------------------
    def echo_policy(self, ser, frame: bytes, nth: int):
        f = frame.decode()
        if " 7FFF " in f:
            if not self.connected:
                # the dongle's start-up: how the echo of the signature poll comes back (never = a dongle that is silent for the whole
                # poll, so the transport connects without knowing its own id; late = only the n-th poll is echoed)
                se = self.plan.knob("sig_echo", "ok")
                if se == "never" or (se == "late" and nth < self.plan.knob("sig_nth", 5)):
                    return []
                return [0.01]
            self.alert_n += 1
            self.all_writes.append((self.now(), "alert", f))
            if self.plan.knob("fault_free") or self.plan.d["scenario"] == "match":
                return [0.01]
            d = self.plan.decide(f"alert{self.alert_n}/echo",
                                 lambda r: ["lost"] if r.random() < 0.15 else ["ok", 0.01], ["ok", 0.01])
            if d[0] == "lost":
                self.hub.count("echo_lost")
                return []
            return [d[1]]
        op = self.by_wire.get(f)
        if op is None:
            self.all_writes.append((self.now(), "other", f))
            return [0.01]
        op.writes.append(self.now())
        op.write_seq.append(len(self.ctx.events))
        self.ctx.ev("write", op.id, len(op.writes))
        if len(op.writes) == 1:
            self.first_write_order.append(op.id)
        self.all_writes.append((self.now(), "cmd", f))
        n = len(op.writes)
        d = self.plan.decide(f"op{op.id}/tx{n}/echo", lambda r: self._gen_echo(r, op), ["ok", 0.01])
        if d[0] == "lost":
            self.hub.count("echo_lost")
            self.ctx.ab(f"e-")
            return []
        lats = [d[1]]
        if d[0] == "dup":
            lats.append(d[1] + d[2])
            self.hub.count("echo_dup")
        if d[1] > 0.2:
            self.hub.count("echo_late")
        self.ctx.ab("e+" if d[1] <= 0.2 else "eL")
        for lat in lats:
            self.loop.call_later(lat, op.echo_rx.append, self.now() + lat)
        return lats

    def _lat(self, r, op: Op, timers) -> float:
        if r.random() < self.plan.knob("p_near_timer", 0.0):
            cands = list(timers)
            if op.call_t is not None:
                rem = op.call_t + min(op.d["timeout"], 20.0) - self.now()
                if rem > 0.003:
                    cands.append(rem)
            base = r.choice(cands)
            return round(max(0.001, base + r.choice(EPS)), 6)
        if r.random() < self.plan.knob("p_slow", 0.1):
            return round(r.uniform(0.3, 6.0), 4)
        return round(r.uniform(0.005, 0.04), 4)

    def _gen_echo(self, r, op: Op):
        if r.random() < self.plan.knob("p_echo_lost", 0.0):
            return ["lost"]
        lat = self._lat(r, op, ECHO_T)
        if r.random() < self.plan.knob("p_dup", 0.0):
            return ["dup", lat, r.choice([0.0, 0.001, 0.03, 0.3])]
        return ["ok", lat]

    def _gen_reply(self, r, op: Op):
        if r.random() < self.plan.knob("p_reply_none", 0.0):
            return ["none"]
        lat = self._lat(r, op, ECHO_T)
        if r.random() < 0.1:
            lat = round(r.uniform(0.001, 0.009), 4)  # often before the echo
        elif self.plan.d["scenario"] == "match":
            lat = round(lat + 0.04, 4)  # after the echo, so that there is a 'between'

        if r.random() < self.plan.knob("p_dup", 0.0):
            return ["dup", lat, r.choice([0.0, 0.001, 0.03, 0.3])]
        return ["ok", lat]

    def on_frame(self, ser, frame: bytes, nth: int) -> None:
        """The addressed device hears the transmission and may reply."""
        op = self.by_wire.get(frame.decode())
        if op is None or op.rep is None:
            return
        n = len(op.writes)
        d = self.plan.decide(f"op{op.id}/tx{n}/reply", lambda r: self._gen_reply(r, op), ["ok", 0.03])
        if d[0] == "none":
            self.hub.count("reply_lost")
            self.ctx.ab("r-")
            return
        self.tag += 1
        rf = op.reply_frame(self.gid, self.tag)
        op.replies.add(rf)
        if self.plan.knob("adversary"):
            self.adversary(ser, op, n, d[1])
        lats = [d[1]] + ([d[1] + d[2]] if d[0] == "dup" else [])
        if d[0] == "dup":
            self.hub.count("reply_dup")
        if d[1] > 0.2:
            self.hub.count("reply_late")
        self.ctx.ab("r+" if d[1] <= 0.2 else "rL")
        for lat in lats:
            self.hub.rx_line(ser, rf, lat)
            op.reply_rx.append((self.now() + lat, rf))

    def adversary(self, ser, op: Op, n: int, reply_lat: float) -> None:
        """Near-misses at the three instants that matter, relative to this transmission."""

        def gen(r):
            out = []
            for pos in ("pre_echo", "mid", "with_reply"):
                if r.random() < 0.6:
                    out.append([pos, r.choice(["code", "verb", "dev", "ctx", "requester", "rq_other"])])
            return out

        picks = self.plan.decide(f"op{op.id}/tx{n}/adv", gen, [])
        r = self.plan.rng(f"op{op.id}/tx{n}/advr")
        for pos, what in picks:
            f = self.foreign_frame(what, op, r)
            if f is None:
                continue
            self.foreign_frames[f] = what
            self._note_collisions(f)
            self.hub.count("foreign")
            self.ctx.ab(f"{op.kind}:{what}@{pos}")
            lat = {"pre_echo": 0.002, "mid": 0.02, "with_reply": reply_lat - 1e-6}[pos]
            self.hub.rx_line(ser, f, max(0.0005, lat))

    # -- foreign traffic -------------------------------------------------------------
    def foreign_frame(self, what: str, op: Op, r) -> str | None:
        f = self._foreign_frame(what, op, r)
        if f is None:
            return None
        head = f.split()[:6] if f[0] != " " else ["", *f.split()[:5]]
        key = (f[:2], f[7:36], f[37:41])  # verb, address set, code
        for o in self.ops.values():  # a near-miss for `op` must not be the real thing for another call
            if o is op:
                continue
            for cand in (o.wire(self.gid), o.reply_frame(self.gid, 0)):
                if cand is not None and (cand[:2], cand[7:36], cand[37:41]) == key:
                    return None
        return f

    def _foreign_frame(self, what: str, op: Op, r) -> str | None:
        """A near-miss of op's echo or reply that differs in exactly one attribute."""
        self.tag += 1
        if op.rep is None:
            if op.space == "own" and what == "dev":  # the same announcement from somebody else's gateway
                return op.frame.replace(op.src, "18:222222")
            return None
        if what == "code":
            alt = {"30C9": "2309", "2309": "30C9", "2349": "2309", "12B0": "2309"}.get(op.code)
            if alt is None or op.space != "zone":
                return None
            return _rp(op.dst, self.gid, alt, f"{op.z}{self.tag:04X}")
        if what == "verb":
            rf = op.reply_frame(self.gid, self.tag)
            v = rf[:2]
            nv = " I" if v == "RP" else "RP"
            return nv + rf[2:]
        if what == "dev":
            other = op.dst[:3] + f"{(int(op.dst[3:]) + 7) % 262143:06d}"
            return op.reply_frame(self.gid, self.tag, src=other)
        if what == "ctx":
            y = other_ctx(op.space, op.z, r)
            if y is None or op.space in ("none", "imp"):
                return None
            if op.kind == "0418n":
                return None
            return op.reply_frame(self.gid, self.tag, z=y)
        if what == "rq_other":  # the same request from another requester (documented collision)
            other = "01:199999" if op.dst[:2] != "01" else "30:199999"
            return op.frame[:7] + other + op.frame[16:]
        if what == "requester":  # documented collision: probe only
            return op.reply_frame(self.gid, self.tag, dst="01:199999" if op.dst[:2] != "01" else "30:199999")
        return f" I --- 04:0{r.randrange(10000, 99999)} --:------ 01:145038 3150 002 0{r.randrange(8)}64"

    def relation(self, op: Op, got: str) -> str | None:
        """How a packet relates to `op`: 'requester' = its genuine reply but addressed to another requester,
        'rq_other' = its own request sent by another requester (the documented header collisions), else None."""
        if got[:2] == op.verb and got[17:26] == op.dst and got[37:41] == op.code and got[7:16] != self.gid \
                and got[41:] == op.wire(self.gid)[41:]:
            return "rq_other"
        gen = op.reply_frame(self.gid, 0)
        if gen is None or got[:2] != gen[:2] or got[7:16] != gen[7:16] or got[37:41] != gen[37:41]:
            return None
        if got[17:26] == gen[17:26]:
            return None
        gp, ep = got[46:], gen[46:]
        sl = {"zone": [(0, 2)], "log": [(4, 6)], "ot": [(4, 6)], "frag": [(0, 2), (10, 12)], "zr": [(0, 4)], "zt": [(0, 4)]}
        for a, b in sl.get(op.space, []):
            if gp[a:b] != ep[a:b]:
                return None
        return "requester"

    def _note_collisions(self, f: str) -> None:
        for o in self.ops.values():
            if self.relation(o, f):
                o.collisions += 1

    # -- a caller --------------------------------------------------------------------
    async def caller(self, cid: int, ops: list[Op]) -> None:
        t_prev = 0.0
        for op in ops:
            delay = op.d["at"] - t_prev if op is not ops[0] else op.d["at"]
            t_prev = op.d["at"]
            if delay > 0:
                await asyncio.sleep(delay)
            await self.one_call(op)

    async def one_call(self, op: Op) -> None:
        try:
            cmd = Command(op.frame)
        except Exception as err:  # harness table error: surface loudly
            raise RuntimeError(f"peer table produced an invalid command {op.frame!r}: {err}") from err
        qos = QosParams(max_retries=op.d["max_retries"], timeout=op.d["timeout"], wait_for_reply=op.d["wfr"])
        op.call_t = self.now()
        op.call_seq = len(self.ctx.events)
        self.ctx.ev("call", op.id, op.frame)
        try:
            api = self.plan.knob("api", "proto")
            if api == "engine":
                pkt = await self.engine.async_send_cmd(cmd, priority=Priority(op.d["prio"]), max_retries=op.d["max_retries"],
                                                       timeout=op.d["timeout"], wait_for_reply=op.d["wfr"],
                                                       num_repeats=op.d["num_repeats"])
            elif api == "gateway_task":
                pkt = await self.engine.send_cmd(cmd, priority=Priority(op.d["prio"]), timeout=op.d["timeout"],
                                                 wait_for_reply=op.d["wfr"], num_repeats=op.d["num_repeats"])
            else:
                pkt = await self.proto.send_cmd(cmd, priority=Priority(op.d["prio"]), qos=qos,
                                                num_repeats=op.d["num_repeats"])
            op.outcome = ("pkt", str(pkt))
        except exc.ProtocolError as err:
            op.outcome = ("perr", type(err).__name__, str(err)[:120])
        except asyncio.CancelledError:
            op.outcome = ("cancelled",)
            op.ret_t = self.now()
            op.ret_seq = len(self.ctx.events)
            self.ctx.ev("ret", op.id, "cancelled")
            raise
        except BaseException as err:  # noqa
            from ..runner import exc_sig

            op.outcome = ("other", exc_sig(err), str(err)[:200])
        op.ret_t = self.now()
        op.ret_seq = len(self.ctx.events)
        self.ctx.ev("ret", op.id, op.outcome[0], op.outcome[1] if len(op.outcome) > 1 else "")
        self.ctx.ab(f"{op.outcome[0][:2]}")

    # -- the run -----------------------------------------------------------------------
    async def setup(self) -> None:
        k = self.plan.knob
        T.MIN_INTER_WRITE_GAP = k("min_gap", 0.05)
        T._DBG_DISABLE_DUTY_CYCLE_LIMIT = not k("limits", False)
        fw = k("fw", "evofw3")
        T.is_hgi80 = lambda name: fw == "hgi80"
        self.mqtt = k("tr", "serial") == "mqtt"
        self.hub.echo_policy = self.echo_policy
        self.hub.on_frame = self.on_frame
        self.msgs = []
        self.proto = P.protocol_factory(self.msgs.append, disable_qos=k("disable_qos", False))
        if self.mqtt:
            from ..rf import FakeMqttClient

            FakeMqttClient.instances.clear()
            T.mqtt.Client = FakeMqttClient
            self.ser = self.hub.add_mqtt_port("mqtt0", self.gid)
            self.tr = T.MqttTransport("mqtt://u:p@broker.local:1883", self.proto, loop=self.loop)
            cl = FakeMqttClient.instances[-1]
            self.ser.attach(cl)
            cl.on_connect(cl, None, {}, 0)
            if k("mqtt_retained_offline", False):  # the gateway was off when we subscribed: its retained status says so, until it boots
                self.ser.status(b"offline")
                self.hub.count("mqtt_retained_offline_at_start")
            self.ser.status(b"online")
            if k("limits", False):
                self.tr._num_tokens = float(k("mqtt_tokens", 160))
            else:
                self.tr._num_tokens = self.tr._max_tokens = 1e9
            self.ctx.probe("mqtt_transport")
        elif k("api", "proto") != "proto":
            self.ser = self.hub.add_port("/dev/sim0", self.gid, fw)
            T.serial_for_url = self.hub.serial_for_url
            if k("api") == "engine":
                from ramses_tx.gateway import Engine

                self.engine = Engine("/dev/sim0", disable_qos=k("disable_qos", False))
                self.engine.add_msg_handler(self.msgs.append)
            else:
                from ramses_rf import Gateway

                self.engine = Gateway("/dev/sim0", config={"disable_discovery": True, "enforce_known_list": False,
                                                          "disable_qos": k("disable_qos", False)})
            await self.engine.start()
            self.proto = self.engine._protocol
            self.tr = self.engine._transport
            self.ctx.probe("api_" + k("api"))
        else:
            self.ser = self.hub.add_port("/dev/sim0", self.gid, fw)
            self.tr = T.PortTransport(self.ser, self.proto, loop=self.loop)
        await self.proto.wait_for_connection_made(timeout=3)
        if k("sig_echo", "ok") != "ok" and not self.mqtt:
            self.hub.count("signature_echo_" + k("sig_echo"))
            if self.tr.get_extra_info("active_gwy") is None:
                self.ctx.probe("connected_without_knowing_the_gateway_id")
        self.connected = True
        for op in self.ops.values():
            self.by_wire[op.wire(self.gid)] = op
            # two bind accepts to one addressee share a header whatever their index (KF12): each one's echo / confirm can be taken
            # for the other's, so their retry timing is not judged (as for any documented header collision)
            if op.kind == "W1FC9" and any(o is not op and o.kind == "W1FC9" and o.dst == op.dst for o in self.ops.values()):
                op.collisions += 1
        # observe the hand-off protocol -> transport (before the limiter / leaker delays)
        orig_wf = self.tr.write_frame
        sim0 = self

        async def write_frame(frame, *a, _orig=orig_wf, **kw):
            op = next((o for o in sim0.ops.values() if o.frame == frame), None)
            if op is not None:
                op.handoffs.append((sim0.now(), len(sim0.ctx.events)))
                sim0.ctx.ev("handoff", op.id)
            return await _orig(frame, *a, **kw)

        self.tr.write_frame = write_frame
        # measure the impersonation alert from outside (falls back to the 20 s bound)
        orig = getattr(self.proto, "_send_impersonation_alert", None)
        if orig is not None:
            sim = self

            async def wrapped(cmd, _orig=orig):
                op = next((o for o in sim.ops.values() if o.frame == str(cmd)), None)
                if op is not None:
                    op.alert_enter = sim.now()
                try:
                    return await _orig(cmd)
                finally:
                    if op is not None:
                        op.alert_exit = sim.now()

            self.proto._send_impersonation_alert = wrapped

    def schedule_faults(self) -> None:
        loop = self.loop
        base = self.t_start
        for i, d in enumerate(self.plan.ops):
            kind = d["op"]
            if kind == "stall":
                loop.add_stall(base + d["at"], d["dur"])
            elif kind == "pause":
                loop.call_at(base + d["at"], self._pause)
            elif kind == "resume":
                loop.call_at(base + d["at"], self._resume)
            elif kind == "write_error":
                loop.call_at(base + d["at"], self._arm_write_error)
            elif kind == "read_error":
                loop.call_at(base + d["at"], self._read_error)
            elif kind == "disconnect":
                loop.call_at(base + d["at"], self._disconnect, d["how"], i)
            elif kind == "foreign":
                loop.call_at(base + d["at"], self._foreign, d, i)
            elif kind == "cancel":
                loop.call_at(base + d["at"], self._cancel, d["caller"])

    def _busy(self) -> bool:
        return any(o.call_t is not None and o.ret_t is None for o in self.ops.values())

    def _pause(self):
        if self.hub.quiet:
            return
        self.hub.count("pause" if self._busy() else "pause_idle")
        if self.mqtt:
            self.ser.status(b"offline")  # the gateway's status topic: the transport itself pauses the protocol
        else:
            self.proto.pause_writing()
        self.paused.append((self.now(), None))

    def _resume(self):
        self.hub.count("resume")
        if self.mqtt and not self.tr.is_closing():
            self.ser.status(b"online")
        else:
            self.proto.resume_writing()
        if self.paused and self.paused[-1][1] is None:
            self.paused[-1] = (self.paused[-1][0], self.now())

    def _arm_write_error(self):
        if self.hub.quiet:
            return
        self.ser.fail_write = T.MQTTException("simulated publish failure") if self.mqtt else \
            SerialException("simulated write failure")

    def _read_error(self):
        if self.hub.quiet or self.tr.is_closing() or self.mqtt:
            return
        self.ser.fail_read = SerialException("simulated read failure")
        self.ser.kick()

    def _disconnect(self, how, i):
        if self.disconnected_at is not None or self.hub.quiet or self.tr.is_closing():
            return
        self.hub.count("disconnect" if self._busy() else "disconnect_idle")
        self.disconnected_at = self.now()
        self.ctx.ev("disconnect", how)
        if how == "close":
            self.tr.close()
        elif self.mqtt:
            self.tr._close(exc.TransportError("simulated loss of the broker"))
        else:
            self.tr._abort(SerialException("simulated unplug"))
        for d in self.plan.ops:
            if d["op"] == "late_bytes":
                self.hub.rx_line(self.ser, f" I --- 01:145038 --:------ 01:145038 1F09 003 FF0708",
                                 d["after_close"])
                self.hub.count("late_bytes")

    def _foreign(self, d, i):
        op = self.ops.get(d["ref"])
        if op is None or self.hub.quiet:
            return
        r = self.plan.rng(f"foreign{i}")
        f = self.foreign_frame(d["what"], op, r)
        if f is None:
            return
        self.hub.count("foreign" if self._busy() else "foreign_idle")
        self.foreign_frames[f] = d["what"]
        self._note_collisions(f)
        self.hub.rx_line(self.ser, f, 0.0)

    def _cancel(self, cid):
        t = self.tasks.get(cid)
        if t is not None and not t.done():
            self.hub.count("caller_cancel")
            self.cancelled_callers.add(cid)
            t.cancel()

    async def run(self) -> None:
        ctx = self.ctx
        await self.setup()
        self.t_start = self.now()
        self.schedule_faults()
        by_caller: dict[int, list[Op]] = {}
        for op in self.ops.values():
            by_caller.setdefault(op.d["caller"], []).append(op)
        for cid, lst in by_caller.items():
            lst.sort(key=lambda o: (o.d["at"], o.id))
            self.tasks[cid] = self.loop.create_task(self.caller(cid, lst), name=f"caller{cid}")
        # every call is bounded by 20 s (+ alert <= 20 s + its own queueing); sequential per caller
        worst = max((sum(45.0 + 0 * o.id for o in lst) + lst[-1].d["at"] for lst in by_caller.values()),
                    default=1.0) + 10.0
        stalls = sum(d["dur"] for d in self.plan.ops if d["op"] == "stall")
        done, pending = await asyncio.wait(self.tasks.values(), timeout=worst + stalls) if self.tasks else (set(), set())
        self.hung = sorted(t.get_name() for t in pending)
        for t in pending:
            t.cancel()
        for t in done:
            if not t.cancelled() and t.exception() is not None:
                raise t.exception()  # harness error in caller()
        self.t_calls_done = self.now()
        if self.mqtt and sum(len(o.handoffs) for o in self.ops.values()) > sum(len(o.writes) for o in self.ops.values()):
            ctx.probe("mqtt_write_discarded_or_pending_at_end")
        ctx.nontrivial = any(v for kf, v in self.hub.fault_counts.items() if not kf.endswith("_idle")) or \
            self.loop.stall_count > 0 or self.loop.tie_count > 0


# ---------------------------------------------------------------------------------------
# oracles
# ---------------------------------------------------------------------------------------



def oracle_c07(sim: QosSim) -> None:
    ctx = sim.ctx
    stalls = [(sim.t_start + d["at"], d["dur"]) for d in sim.plan.ops if d["op"] == "stall"]
    if sim.hung:
        ctx.violate("C07", "hang", "", f"callers never finished: {sim.hung}")
    for op in sim.ops.values():
        if op.call_t is None:
            continue
        if op.ret_t is None:
            ctx.violate("C07", "hang", "", f"op{op.id} {op.frame} called at {op.call_t - T0:.3f} never returned")
            continue
        kind = op.outcome[0]
        if kind == "cancelled":
            if op.d["caller"] not in sim.cancelled_callers:
                ctx.violate("C07", "exc_type", "CancelledError", f"op{op.id} {op.frame}: the call ended with CancelledError although "
                            f"nobody cancelled its caller")
            continue
        if kind == "other":
            ctx.violate("C07", "exc_type", op.outcome[1], f"op{op.id} {op.frame}: {op.outcome}")
        elif kind == "pkt":
            got = op.outcome[1]
            if got == op.wire(sim.gid):
                ctx.probe("returned_echo")
            elif got in op.replies:
                ctx.probe("returned_reply")
            else:
                cls = sim.foreign_frames.get(got)
                null0418 = op.code == "0418" and got.endswith(" 0418 022 000000B0000000000000000000007FFFFF7000000000") \
                    and got[7:16] == op.dst
                rel = sim.relation(op, got) if cls else None
                if cls in ("requester", "rq_other") or rel:  # documented header collisions: counted, not judged
                    ctx.probe("returned_" + (rel or cls) + "_collision")
                elif null0418:  # a null log entry carries no index: any RQ|0418 to that device may own it
                    ctx.probe("ambiguous_null_0418")
                else:
                    who = "foreign:" + cls if cls else ("other_cmd" if any(
                        got == o.wire(sim.gid) or got in o.replies for o in sim.ops.values()) else "unknown")
                    if op.kind == "W1FC9":
                        who += ":W1FC9"  # (KF12: a bind accept's reply header names only the addressee)
                    ctx.violate("C07", "wrong_pkt", who, f"op{op.id} {op.frame} returned {got!r}")
        # deadline
        alert = 0.0
        if op.impersonates:
            if op.alert_enter is not None and op.alert_exit is not None:
                alert = op.alert_exit - op.alert_enter
            else:
                alert = 20.0
            alert = min(alert, 20.0 + SLACK)
        bound = min(op.d["timeout"], 20.0) + alert + SLACK
        bound += sum(dur for (at, dur) in stalls if op.call_t - dur <= at <= op.ret_t)
        took = op.ret_t - op.call_t
        if took > bound:
            ctx.violate("C07", "deadline", "imp" if op.impersonates else "",
                        f"op{op.id} {op.frame} timeout={op.d['timeout']} took {took:.4f} > {bound:.4f}")
        ctx.sample = ctx.sample or {"ops": [o.d for o in list(sim.ops.values())[:3]],
                                    "knobs": sim.plan.d["knobs"],
                                    "first": {"frame": op.frame, "outcome": list(op.outcome), "took": round(took, 4),
                                              "writes": [round(w - T0, 4) for w in op.writes]}}


async def run(ctx) -> None:
    if ctx.plan.d["scenario"] == "twins":
        from . import qos_twins

        return await qos_twins.run(ctx)
    sim = QosSim(ctx)
    await sim.run()
    sc = ctx.plan.d["scenario"]
    oracle_c07(sim)
    from . import qos_oracles as QO

    if sc in ("send", "burst", "episode"):
        QO.oracle_c08(sim)
    if sc == "match":
        QO.oracle_c06(sim)
    await QO.quiesce_and_probe(sim)  # C09 (also tears the transport down)
    gc.collect()
    for e in ctx.loop_excs:
        QO.judge_loop_exc(sim, e)


def on_hang(ctx, where: str, pending: list[str]) -> None:
    ctx.violate("C09", "loop_dead", where, f"event loop ran dry at {where}; pending={pending}")


def on_wedge(ctx, desc: str) -> None:
    import re

    ctx.violate("C09", "wedged", re.sub(r"\(.*", "", desc), f"the event loop thread blocked for ever on {desc}")
