"""Engine `filt` (C10): device-id filters (block list, known list, enforcement) on receive and on send,
through a real Gateway on FakeSerial, against an independent 6-line reference."""
from __future__ import annotations

import asyncio
import gc

from .. import gen, world  # noqa: F401
from ..runner import exc_sig
from ..vloop import T0

from ramses_rf import Gateway
from ramses_tx import Command, exceptions as exc
from ramses_tx.message import Message
from ramses_tx.packet import Packet

TYPES = ["01", "04", "13", "18", "30", "32", "10", "07", "22", "34", "03", "12", "02", "20", "29", "37"]
SPECIAL = ["63:262142", "--:------", "18:000730"]


def generate(plan) -> None:
    r = plan.rng("gen")
    k = plan.d["knobs"]
    k["fault_free"] = False
    k["drift"] = 0.0
    # per device type: up to 3 ids
    pool = {t: [f"{t}:{r.randrange(1000, 262000):06d}" for _ in range(3)] for t in TYPES}
    ids = [i for lst in pool.values() for i in lst]
    mode = r.choice(["block_only", "known_enforced", "known_not_enforced", "both", "both_overlap", "none",
                     "enforced_empty_known"])
    known, block = [], []
    if mode in ("known_enforced", "known_not_enforced", "both", "both_overlap"):
        known = [i for i in ids if r.random() < 0.5]
    if mode in ("block_only", "both", "both_overlap"):
        cands = ids if mode == "both_overlap" else [i for i in ids if i not in known]
        block = [i for i in cands if r.random() < 0.3]
    enforce = mode in ("known_enforced", "both", "both_overlap", "enforced_empty_known") and r.random() < 0.9
    gw_choice = r.choice(["listed", "listed_class", "unlisted", "blocked", "implicit"])
    gid = r.choice(pool["18"])
    known = [i for i in known if i != gid]
    block = [i for i in block if i != gid]
    kl = {i: {} for i in known}
    if gw_choice in ("listed", "implicit") and mode != "enforced_empty_known" and known:
        kl[gid] = {}
    elif gw_choice == "listed_class" and known:
        kl[gid] = {"class": "HGI"}
    elif gw_choice == "blocked":
        block.append(gid)
    k.update({"gid": gid, "known_list": kl, "block_list": {i: {} for i in block}, "enforce": enforce, "mode": mode,
              "pool": pool, "gw": gw_choice})
    cor = gen.corpus()["frames"]
    ops = plan.d["ops"]
    n = r.choice([30, 80, 160])
    while len(ops) < n:
        dtm, body = r.choice(cor)
        f = body[4:]
        t0, t1, t2 = f[7:9], f[17:19], f[27:29]
        repl = {}

        def mk(a):
            if a[:2] == "--" or a in ("63:262142",):
                return a
            if a == "18:000730":
                return a
            t = a[:2]
            if t not in pool:
                return None
            if a not in repl:
                repl[a] = gid if (t == "18" and r.random() < 0.5) else r.choice(pool[t])
            return repl[a]

        a = [mk(f[7:16]), mk(f[17:26]), mk(f[27:36])]
        if None in a:
            continue
        if r.random() < 0.04:
            a[r.randrange(3)] = r.choice(SPECIAL)
        frame = f"{f[:7]}{a[0]} {a[1]} {a[2]}{f[36:]}"
        frame = frame.split("#")[0].split("<")[0].split("*")[0].rstrip()
        ops.append({"op": "rx", "frame": frame, "early": r.random() < 0.05})
    for _ in range(r.choice([3, 8, 15])):
        src = r.choice(["18:000730", "18:000730", gid, r.choice(ids), r.choice(pool["18"])])
        dst = r.choice([r.choice(ids), r.choice(pool["01"]), r.choice(ids), "63:262142", gid])
        kind = r.choice(["RQ", "RQ", " W", " I"])
        if kind == "RQ":
            frame = f"RQ --- {src} {dst} --:------ 30C9 001 00"
        elif kind == " W":
            frame = f" W --- {src} {dst} --:------ 2309 003 00{r.randrange(500, 3000):04X}"
        else:
            frame = f" I --- {src} {dst} --:------ 30C9 003 00{r.randrange(500, 3000):04X}"
        ops.insert(r.randrange(len(ops) + 1), {"op": "tx", "frame": frame})


def addrs_of(frame: str):
    a = [frame[7:16], frame[17:26], frame[27:36]]
    # src/dst per the three legal shapes
    if a[0] != "--:------" and a[1] != "--:------":
        return a[0], a[1]
    if a[0] != "--:------":
        return a[0], a[2]
    return a[2], a[2]


def reference(known, block, enforce, active, src, dst, sending) -> bool:
    enforced = enforce and bool(known)

    def allowed(i):
        if i in block:
            return False
        if not enforced:
            return True
        if i in known or (active is not None and i == active) or i in ("63:262142", "--:------"):
            return True
        return sending and i == "18:000730"

    return allowed(src) and allowed(dst)


async def run(ctx) -> None:
    plan, loop, hub = ctx.plan, ctx.loop, ctx.hub
    k = plan.knob
    gid = k("gid")
    known = dict(k("known_list"))
    block = dict(k("block_list"))
    enforce = k("enforce")
    ser = hub.add_port("/dev/sim0", gid)
    import ramses_tx.transport as T

    T.serial_for_url = hub.serial_for_url
    # a slow dongle / serial link: the echo (also of the start-up signature poll, sent every 50 ms) takes that long
    lat = plan.decide("echo_latency", lambda r: r.choice([0.01, 0.01, 0.01, 0.12, 0.6, 1.5]), 0.01)
    hub.echo_policy = lambda ser_, frame, nth: [lat]
    if lat > 0.05:
        hub.count("slow_echo")
    delivered: list[str] = []
    gwy = Gateway("/dev/sim0", known_list={i: dict(v) for i, v in known.items()},
                  block_list={i: dict(v) for i, v in block.items()},
                  config={"enforce_known_list": enforce, "disable_discovery": True, "disable_qos": True})
    gwy.add_msg_handler(lambda m: delivered.append(str(m._pkt)))
    early = [o for o in plan.ops if o["op"] == "rx" and o.get("early")]
    t_start = loop.create_task(gwy.start())
    for o in early:
        hub.rx_line(ser, o["frame"], 0.004)
    await t_start
    await asyncio.sleep(0.3 + (lat if lat > 0.05 else 0.0))
    hub.echo_policy = None  # (the slow start-up is over: the dongle's usual 10 ms from here on)
    active = gid if gid not in block else None
    n_early = len(delivered)
    judged = 0
    # early frames: judged with the active gateway unknown (or known, if the signature echo had already arrived)
    for o in early:
        src, dst = addrs_of(o["frame"])
        w_unknown = reference(known, block, enforce, None, src, dst, False)
        w_known = reference(known, block, enforce, active, src, dst, False)
        got = o["frame"] in delivered
        if w_unknown == w_known and decodes(ctx, o["frame"]) and got != w_known:
            ctx.violate("C10", "rx_" + ("dropped" if w_known else "passed"), "early", f"{o['frame']!r} before the handshake: "
                        f"delivered={got}, reference={w_known}")
    delivered.clear()
    seen_from_gateway: list[str] = []
    for o in plan.ops:
        if o["op"] == "rx" and not o.get("early"):
            n0 = len(delivered)
            hub.rx_line(ser, o["frame"], 0.0)
            await asyncio.sleep(0.004)
            src, dst = addrs_of(o["frame"])
            want = reference(known, block, enforce, active, src, dst, False)
            if not decodes(ctx, o["frame"]):
                ctx.probe("rx_undecodable")
                continue
            got = o["frame"] in delivered[n0:]
            judged += 1
            ctx.ab(f"r{int(want)}")
            if got and not want:
                why = "blocked" if (src in block or dst in block) else "not_allowed"
                ctx.violate("C10", "rx_passed", why, f"{o['frame']!r} reached the application although src/dst is {why}: "
                            f"known={sorted(known)[:6]}.. block={sorted(block)[:6]}.. enforce={enforce} active={active}")
            elif want and not got:
                ctx.violate("C10", "rx_dropped", "", f"{o['frame']!r} was not delivered although every address is allowed: "
                            f"enforce={enforce} active={active} src_in_known={src in known} dst_in_known={dst in known}")
            elif want and got and src == active:
                seen_from_gateway.append(o["frame"])
        elif o["op"] == "tx":
            frame = o["frame"]
            src, dst = addrs_of(frame)
            want = reference(known, block, enforce, active, src, dst, True)
            w0 = len(hub.writes)
            try:
                cmd = Command(frame)
            except Exception:  # noqa
                continue
            outcome = None
            try:
                await asyncio.wait_for(gwy.async_send_cmd(cmd, wait_for_reply=False, timeout=2.0, max_retries=0), 10)
                outcome = "ok"
            except exc.ProtocolSendFailed:
                outcome = "send_failed"
            except exc.ProtocolError:
                outcome = "refused"
            except TimeoutError:
                outcome = "hang"
            except Exception as err:  # noqa
                outcome = "exc:" + exc_sig(err)
            await asyncio.sleep(0.1)
            wire = frame.encode()
            written = any(d.rstrip(b"\r\n") == wire for (_t, _n, d) in hub.writes[w0:])
            judged += 1
            ctx.ab(f"t{int(want)}")
            if not want and written:
                why = "blocked" if (src in block or dst in block) else "not_allowed"
                ctx.violate("C10", "tx_passed", why, f"{frame!r} was written to the radio although src/dst is {why} "
                            f"(outcome {outcome})")
            elif not want and outcome != "refused":
                ctx.violate("C10", "tx_not_refused", outcome or "", f"{frame!r} should be refused with ProtocolError, got {outcome}")
            elif want and not written:
                ctx.violate("C10", "tx_dropped", outcome or "", f"{frame!r}: every address is allowed but nothing was written "
                            f"(outcome {outcome}); enforce={enforce} active={active}")
    # one layer up: once the (allowed) active gateway's own packets were delivered, the gateway device exists
    await asyncio.sleep(0.05)
    if seen_from_gateway and active is not None and gwy.hgi is None:
        ctx.violate("C10", "gateway_device_missing", "listed" if active in known else "unlisted", f"{len(seen_from_gateway)} packets "
                    f"from the active gateway {active} were delivered (e.g. {seen_from_gateway[0]!r}) but gwy.hgi is None "
                    f"(enforce={enforce})")
    # the cache-restore path filters too: blocked never passes, allowed is never dropped
    handled: list[str] = []
    orig_handler = gwy._msg_handler

    def spy(msg):
        handled.append(str(msg._pkt))
        return orig_handler(msg)

    gwy._msg_handler = spy
    cache = {}
    base = __import__("datetime").datetime(2024, 1, 10, 11, 0, 0)
    rx = [o["frame"] for o in plan.ops if o["op"] == "rx"]
    for i, fr in enumerate(rx[:60]):
        cache[(base + __import__("datetime").timedelta(seconds=i)).isoformat(timespec="microseconds")] = "045 " + fr
    if cache:
        try:
            await gwy._restore_cached_packets(cache)
        except Exception as err:  # noqa
            ctx.violate("C10", "restore_raised", exc_sig(err), f"_restore_cached_packets raised {type(err).__name__}: {err}")
        await asyncio.sleep(0.2)
        for fr in rx[:60]:
            if not decodes(ctx, fr):
                continue
            src, dst = addrs_of(fr)
            got = fr in handled
            if (src in block or dst in block) and got:
                ctx.violate("C10", "restore_passed", "blocked", f"cached packet {fr!r} was restored although src/dst is block-listed")
            elif reference(known, block, enforce, active, src, dst, False) and not got:
                ctx.violate("C10", "restore_dropped", "", f"cached packet {fr!r} was dropped on restore although every address is "
                            f"allowed (enforce={enforce}, active gateway {active} {'listed' if active in known else 'unlisted'})")
        ctx.probe("restored", len(handled))
    gwy._msg_handler = orig_handler
    # no device for a blocked / not-allowed id
    enforced = enforce and bool(known)
    for dev_id in list(gwy.device_by_id):
        if dev_id in block:
            ctx.violate("C10", "device_created", "blocked", f"a device exists for block-listed id {dev_id}")
        elif enforced and dev_id not in known and dev_id != active:
            ctx.violate("C10", "device_created", "not_allowed", f"a device exists for {dev_id}, which is neither in the enforced "
                        f"known list nor the active gateway ({active})")
    await gwy.stop()
    await asyncio.sleep(0.1)
    gc.collect()
    ctx.probe("judged", judged)
    ctx.probe("early_frames", len(early))
    ctx.nontrivial = judged > 0 and (bool(block) or enforced)
    ctx.ab(f"{k('mode')}:{k('gw')}:{enforce}")
    ctx.sample = {"mode": k("mode"), "gateway": k("gw"), "enforce": enforce, "known": len(known), "block": len(block),
                  "ops": [o for o in plan.ops[:3]]}


_dec_cache: dict[str, bool] = {}


def decodes(ctx, frame: str) -> bool:
    if frame in _dec_cache:
        return _dec_cache[frame]
    try:
        Message(Packet.from_file("2024-01-10T12:00:00.000000", "045 " + frame))
        ok = True
    except Exception:  # noqa
        ok = False
    if len(_dec_cache) > 5000:
        _dec_cache.clear()
    _dec_cache[frame] = ok
    return ok


def on_hang(ctx, where: str, pending: list[str]) -> None:
    ctx.violate("C10", "hang", where, f"event loop ran dry at {where}; pending={pending}")


def on_wedge(ctx, desc: str) -> None:
    ctx.violate("C10", "wedged", desc.split("(")[0], desc)
