"""Engine `state`, scenario `fresh` (C14): freshness and expiry of state.

Traffic is *generated* by the engine from the frame layouts documented in the parsers' comments (a scripted controller
01:, TRVs 04:, a thermostat 34:, relays 13:, a DHW sensor 07:), with a value unique to every transmission, so the
reference model -- "the value of the most recently delivered message per (entity, attribute)", updated at the
moment of delivery -- never needs the library's parsers.  Interleaved: other zones, other devices, other codes, a second
system using the same zone indexes, and RQ / W frames (which must not displace state).  The virtual wall clock is stepped
to chosen ages, including the exact expiry thresholds.

Oracles
 1 fresh     reported == model while the newest message is younger than its lifetime L
 2 expiry    Message._expired is False for every age < L, True for every age >= 2L + 5 s, and never goes True -> False
             (ages in between are the implementation's business); L from the independent table LIFETIME below
 3 aged out  once the newest message is older than 2L + 5 s the attribute reads None -- on the first read already
"""
from __future__ import annotations

import asyncio
import datetime as _dt
import gc

from .. import clock, world  # noqa: F401
from ..runner import exc_sig

import ramses_tx.transport as T
from ramses_rf import Gateway

GID = "18:006402"
CTL = "01:145038"
CTL2 = "01:222222"
OTB = "10:100400"
OT_ATTRS = {"boiler_output_temp": 0x19, "boiler_return_temp": 0x1C, "outside_temp": 0x1B, "dhw_flow_rate": 0x13,
            "ch_water_pressure": 0x12, "dhw_temp": 0x1A, "dhw_setpoint": 0x38, "ch_max_setpoint": 0x39}  # all f8.8
GRACE = 5.0  # "a few seconds' grace": the statement's bound is 2L + grace; the library uses 3 s

MODES_2349 = {"00": "follow_schedule", "01": "advanced_override", "02": "permanent_override", "04": "temporary_override"}
MODES_2E04 = {"00": "auto", "01": "heat_off", "02": "eco_boost", "03": "away", "04": "day_off", "05": "day_off_eco",
              "06": "auto_with_reset", "07": "custom"}
OT_SCHEMA_IDS = (3, 6, 127)                    # 6 h x 2.1
OT_PARAMS_IDS = (14, 15, 48, 49, 56, 57)       # 1 h x 2.1
# every other id (status and unknown): 5 min x 2.1


def lifetime(verb: str, code: str, payload: str, n_elems: int = 1) -> float | None:
    """Independent copy of the documented lifetimes (seconds); None = never expires."""
    if code == "1F09" and verb != "RQ":
        return int(payload[2:6], 16) / 10
    if verb in ("RQ", " W"):
        return None
    if code in ("0005", "000C", "0404", "10E0"):
        return 86400.0
    if code == "0006":
        return 3600.0
    if code == "000A":
        return 3600.0 if (verb == " I" and n_elems > 1) else 86400.0
    if code == "1FC9":
        return 86400.0 if verb == "RP" else 3600.0
    if code in ("2309", "30C9") and verb == " I" and n_elems > 1:
        return 360.0
    if code == "3220":
        i = int(payload[4:6], 16)
        if i in OT_SCHEMA_IDS:
            return 6 * 3600 * 2.1
        if i in OT_PARAMS_IDS:
            return 3600 * 2.1
        return 300 * 2.1
    return {"0004": 86400.0, "0100": 86400.0, "1060": 86400.0, "10A0": 4 * 3600.0, "1100": 86400.0, "1260": 3600.0,
            "12A0": 3600.0, "12B0": 3600.0, "1F41": 4 * 3600.0, "2309": 1800.0, "2349": 4 * 3600.0, "2E04": 4 * 3600.0,
            "30C9": 3600.0, "313F": 3.0, "3150": 1200.0}.get(code, 3600.0)


def generate(plan) -> None:
    r = plan.rng("gen")
    k = plan.d["knobs"]
    k["drift"] = 0.0
    k["min_gap"] = 0.25
    k["fault_free"] = r.random() < 0.15  # no loss/dup/reorder, no foreign traffic
    ff = k["fault_free"]
    zones = sorted(r.sample([f"{i:02X}" for i in range(12)], r.choice([2, 3, 4, 6])))
    k["zones"] = zones
    k["dhw"] = r.random() < 0.6
    k["p_drop"] = 0.0 if ff else r.choice([0.0, 0.1, 0.3])
    k["p_dup"] = 0.0 if ff else r.choice([0.0, 0.1, 0.3])
    k["p_noise"] = 0.0 if ff else r.choice([0.1, 0.3, 0.6])
    kinds = ["30C9_arr", "30C9_rp", "2309_arr", "2309_rp", "2349", "000A_arr", "000A_rp", "000A_i", "000A_i", "12B0", "0004", "2E04",
             "trv_30C9", "trv_3150", "trv_12B0", "trv_2309", "thm_30C9", "bdr_0008", "3150_fc", "3150_fc",
             "otb_3220", "otb_3220", "otb_3220"]
    if k["dhw"]:
        kinds += ["1260", "10A0", "1F41", "dhw_1260"]
    noise = ["rq", "w_2309", "foreign_30C9", "foreign_2309", "other_trv", "w_2349", "rq_2349", "foreign_000A", "3150_zone", "3150_zone"]
    ops = plan.d["ops"]
    ADV = [5, 60, 100, 350, 357, 361, 719, 724, 1000, 1195, 1205, 1795, 1801, 2402, 2410, 3599, 3605, 7200, 7206,
           14400, 28810, 86400, 172810]
    for _ in range(r.choice([20, 40, 80, 140])):
        x = r.random()
        if x < k["p_noise"]:
            ops.append({"op": "noise", "kind": r.choice(noise), "z": r.choice(zones), "v": r.randrange(500, 3000)})
        elif x < k["p_noise"] + 0.09:
            ops.append({"op": "adv", "s": r.choice(ADV)})
        elif x < k["p_noise"] + 0.13:
            ops.append({"op": "thresholds", "kind": r.choice(["30C9_arr", "30C9_rp", "2309_arr", "2309_rp", "2349", "000A_arr",
                                                                "000A_rp", "12B0", "1F09", "1F09", "1F09", "1F09rp", "1F09rp", "3150", "rq", "w",
                                                                "0005", "000C", "0006", "3220s", "3220p", "3220c", "1260", "10A0",
                                                                "2E04", "313F", "0008", "10E0", "0004", "1FC9rp", "31DA"]),
                        "cd": r.choice([0, 1, 10, 12, 20, 30, 1855, 2999, 65535, r.randrange(65536), r.randrange(40)])})
        else:
            ops.append({"op": "tx", "kind": r.choice(kinds), "z": r.choice(zones), "verb": r.choice([" I", "RP"]),
                        "m": r.choice(["00", "02", "04", "01"])})
        if r.random() < 0.25:
            ops.append({"op": "sample"})
    ops.append({"op": "sample", "pin": True})


def hx(v: int) -> str:
    return f"{v & 0xFFFF:04X}"


async def run(ctx) -> None:
    plan, loop, hub = ctx.plan, ctx.loop, ctx.hub
    k = plan.knob
    zones: list[str] = k("zones")
    T.MIN_INTER_WRITE_GAP = k("min_gap", 0.25)
    T.serial_for_url = hub.serial_for_url
    ser = hub.add_port("/dev/sim0", GID)
    trv = {z: f"04:{100000 + int(z, 16):06d}" for z in zones}
    thm = "34:100100"
    bdr = "13:100200"
    dhws = "07:100300"
    sch: dict = {"zones": {z: {"class": "radiator_valve", "sensor": (thm if i == 0 else trv[z]), "actuators": [trv[z]]}
                           for i, z in enumerate(zones)},
                 "system": {"appliance_control": bdr}}
    if k("dhw"):
        sch["stored_hotwater"] = {"sensor": dhws}
    gwy = Gateway("/dev/sim0", config={"disable_discovery": True, "enforce_known_list": False, "max_zones": 12},
                  **{CTL: sch, "main_tcs": CTL, "orphans_heat": [OTB]})
    seen: list = []
    gwy.add_msg_handler(lambda m: seen.append(m))
    await gwy.start()
    await asyncio.sleep(0.3)
    tcs = gwy.tcs
    zobj = {z: tcs.zone_by_idx[z] for z in zones}
    counter = [0]
    unknown_zone = next((f"{i:02X}" for i in range(12) if f"{i:02X}" not in zones), None)
    # model: key -> list of (value, t_delivered (datetime), L, frame)  newest last
    model: dict[tuple, list] = {}

    def now() -> _dt.datetime:
        return clock.EPOCH + _dt.timedelta(microseconds=clock.peek_us())

    def fresh_val(lo=600, hi=3400) -> int:
        counter[0] += 1
        return lo + (counter[0] * 7) % (hi - lo)

    def put(key, value, L, frame) -> None:
        model.setdefault(key, []).append((value, now(), L, frame))
        del model[key][:-16]

    def readers():
        rd = {}
        for z in zones:
            zo = zobj[z]
            rd[("zone", z, "temperature")] = lambda zo=zo: zo.temperature
            rd[("zone", z, "setpoint")] = lambda zo=zo: zo.setpoint
            rd[("zone", z, "mode")] = lambda zo=zo: (zo.mode or {}).get("mode") if zo.mode is not None else None
            rd[("zone", z, "mode_setpoint")] = lambda zo=zo: (zo.mode or {}).get("setpoint") if zo.mode is not None else None
            rd[("zone", z, "max_temp")] = lambda zo=zo: (zo.config or {}).get("max_temp") if zo.config is not None else None
            rd[("zone", z, "window_open")] = lambda zo=zo: zo.window_open
            rd[("zone", z, "name")] = lambda zo=zo: zo.name
            d = gwy.device_by_id.get(trv[z])
            if d is not None:
                rd[("dev", trv[z], "temperature")] = lambda d=d: d.temperature
                rd[("dev", trv[z], "heat_demand")] = lambda d=d: d.heat_demand
                rd[("dev", trv[z], "window_open")] = lambda d=d: d.window_open
                rd[("dev", trv[z], "setpoint")] = lambda d=d: d.setpoint
        d = gwy.device_by_id.get(thm)
        if d is not None:
            rd[("dev", thm, "temperature")] = lambda d=d: d.temperature
        d = gwy.device_by_id.get(bdr)
        if d is not None:
            rd[("dev", bdr, "relay_demand")] = lambda d=d: d.relay_demand
        d = gwy.device_by_id.get(OTB)
        if d is not None:
            for a in OT_ATTRS:
                rd[("otb", OTB, a)] = lambda d=d, a=a: getattr(d, a)
        rd[("tcs", "", "heat_demand")] = lambda: tcs.heat_demand
        rd[("tcs", "", "system_mode")] = lambda: (tcs.system_mode or {}).get("system_mode") if tcs.system_mode is not None else None
        if k("dhw") and tcs.dhw is not None:
            dh = tcs.dhw
            rd[("dhw", "", "temperature")] = lambda: dh.temperature
            rd[("dhw", "", "setpoint")] = lambda: dh.setpoint
            rd[("dhw", "", "mode")] = lambda: (dh.mode or {}).get("mode") if dh.mode is not None else None
            d = gwy.device_by_id.get(dhws)
            if d is not None:
                rd[("dev", dhws, "temperature")] = lambda d=d: d.temperature
        return rd

    async def check(where: str, keys=None) -> None:
        rd = readers()
        t = now()
        again = []
        for key in sorted(keys if keys is not None else model):
            hist = model.get(key)
            if not hist or key not in rd:
                continue
            v, t0, L, frame = hist[-1]
            age = (t - t0).total_seconds()
            try:
                got = rd[key]()
            except Exception as err:  # noqa
                ctx.violate("C14", "read_raised", f"{key[0]}.{key[2]}:{exc_sig(err)}", f"{where}: reading {key} raised "
                            f"{type(err).__name__}: {str(err)[:200]} (newest message {frame!r}, age {age:.1f} s)")
                continue
            code = frame[37:41] if frame[2:3] == " " else frame.split()[5]
            if L is None or age < L - 0.01:
                if got != v:
                    ctx.violate("C14", "stale_or_wrong", f"{key[0]}.{key[2]}:{code}", f"{where}: {key} reads {got!r} but the newest "
                                f"delivered message says {v!r}: {frame!r} (age {age:.1f} s of lifetime {L}); earlier: "
                                f"{[(h[0], h[3][37:41]) for h in hist[:-1]]}")
                else:
                    ctx.probe("fresh_reads")
            elif age >= 2 * L + GRACE:
                older = [h[0] for h in hist[:-1] if h[2] is None or (t - h[1]).total_seconds() < 2 * h[2] + GRACE]
                if got is not None and got not in older:
                    again.append((key, got, frame, age, L, code))
                else:
                    ctx.probe("aged_out_reads")
            else:
                ctx.probe("reads_in_the_grey_zone_(not_judged)")
        if again:  # a value that lingers: only on the read that notices the expiry (deletion deferred by one loop turn), or for good?
            await asyncio.sleep(0.001)
            for key, got, frame, age, L, code in again:
                try:
                    got2 = rd[key]()
                except Exception:  # noqa
                    got2 = None
                kind = "lingers" if got2 is not None and got2 == got else "lingers_first_read"
                ctx.violate("C14", kind, f"{key[0]}.{key[2]}:{code}", f"{where}: {key} still reads {got!r} although its newest message "
                            f"{frame!r} is {age:.1f} s old (lifetime {L} s: expired after {2 * L + 3:.0f} s); one loop turn later it reads "
                            f"{got2!r}")

    def deliver(frame: str, updates: list, n_elems: int = 1) -> bool:
        """-> delivered at least once"""
        mode = plan.decide(f"rf/{counter[0]}/{len(hub.rx_log)}", lambda rr: "drop" if rr.random() < k("p_drop", 0.0)
                           else ("dup" if rr.random() < k("p_dup", 0.0) else "ok"), "ok")
        if mode == "drop":
            hub.count("rf_drop")
            return False
        hub.rx_line(ser, frame)
        if mode == "dup":
            hub.count("rf_dup")
            hub.rx_line(ser, frame, 0.03)
        L = lifetime(frame[:2], frame[37:41], frame[46:], n_elems)
        for key, v in updates:
            put(key, v, L, frame)
        return True

    async def tx(o, where) -> None:
        kind, z, verb = o["kind"], o["z"], o.get("verb", " I")
        dst = GID if verb == "RP" else "--:------"
        a = f"{verb} --- {CTL} {dst} --:------" if verb == "RP" else f" I --- {CTL} --:------ {CTL}"
        rp = f"RP --- {CTL} {GID} --:------"  # codes the controller only ever sends as a reply (shapes as in the corpus)
        ups: list = []
        n = 1
        if kind in ("30C9_arr", "2309_arr"):
            code = kind[:4]
            vals = {zz: fresh_val() for zz in zones}
            els = [f"{zz}{hx(v)}" for zz, v in vals.items()]
            if o.get("m") in ("02", "04") and unknown_zone is not None:  # ... plus a zone the gateway's schema does not have
                els.insert(int(o["m"]) % (len(els) + 1), f"{unknown_zone}{hx(fresh_val())}")
                hub.count("array_with_unknown_zone")
            pl = "".join(els)
            frame = f" I --- {CTL} --:------ {CTL} {code} {len(pl) // 2:03d} {pl}"
            attr = "temperature" if code == "30C9" else "setpoint"
            ups = [(("zone", zz, attr), v / 100) for zz, v in vals.items()]
            n = len(els)
        elif kind in ("30C9_rp", "2309_rp"):
            code = kind[:4]
            v = fresh_val()
            frame = f"RP --- {CTL} {GID} --:------ {code} 003 {z}{hx(v)}"
            ups = [(("zone", z, "temperature" if code == "30C9" else "setpoint"), v / 100)]
        elif kind == "2349":
            v = fresh_val(500, 3500)
            m = o.get("m", "00")
            pl = f"{z}{hx(v)}{m}FFFFFF" + ("0A0F0C0C07E8" if m == "04" else "")
            frame = f"{a} 2349 {len(pl) // 2:03d} {pl}"
            ups = [(("zone", z, "mode"), MODES_2349[m]), (("zone", z, "mode_setpoint"), v / 100), (("zone", z, "setpoint"), v / 100)]
        elif kind == "000A_arr":
            vals = {zz: fresh_val(2100, 3500) for zz in zones}
            pl = "".join(f"{zz}1001F4{hx(v)}" for zz, v in vals.items())
            frame = f" I --- {CTL} --:------ {CTL} 000A {len(pl) // 2:03d} {pl}"
            ups = [(("zone", zz, "max_temp"), v / 100) for zz, v in vals.items()]
            n = len(zones)
        elif kind == "000A_rp":
            v = fresh_val(2100, 3500)
            frame = f"RP --- {CTL} {GID} --:------ 000A 006 {z}1001F4{hx(v)}"
            ups = [(("zone", z, "max_temp"), v / 100)]
        elif kind == "000A_i":  # the controller announces one zone's new configuration (seen in the corpus as I|000A|006)
            # (never within 3 s of the last message handled: directly after an I|000A array the library takes it for that array's
            #  second fragment, by design -- detect_array_fragment -- and the pair then is one array message: not what is modelled)
            clock.jump(3.5)
            await asyncio.sleep(0.01)
            v = fresh_val(2100, 3500)
            frame = f" I --- {CTL} --:------ {CTL} 000A 006 {z}1001F4{hx(v)}"
            ups = [(("zone", z, "max_temp"), v / 100)]
        elif kind == "12B0":
            counter[0] += 1
            w = counter[0] % 2 == 0
            frame = f"{rp} 12B0 003 {z}{'C800' if w else '0000'}"
            ups = [(("zone", z, "window_open"), w)]
        elif kind == "0004":
            counter[0] += 1
            name = f"Zone{counter[0]:05d}"
            frame = f"RP --- {CTL} {GID} --:------ 0004 022 {z}00{name.encode().hex().upper()}{'00' * (20 - len(name))}"
            ups = [(("zone", z, "name"), name)]
        elif kind == "2E04":
            counter[0] += 1
            m = f"{counter[0] % 8:02X}"
            frame = f"{a} 2E04 008 {m}FFFFFFFFFFFF00"
            ups = [(("tcs", "", "system_mode"), MODES_2E04[m])]
        elif kind == "otb_3220":  # OpenTherm READ-ACK, f8.8 data, even parity over the 4 bytes
            counter[0] += 1
            attr = sorted(OT_ATTRS)[counter[0] % len(OT_ATTRS)]
            hb = 0 if counter[0] % 3 == 0 else (counter[0] * 7) % 90  # every third reading is exactly zero
            lb = 0x80 if (counter[0] % 2 and hb) else 0x00
            if (hb, lb) == (0x19, 0x80):  # 1980 (25.5) and 47AB are documented 'invalid value' sentinels of these data ids
                hb += 1
            body = (0x40 << 24) | (OT_ATTRS[attr] << 16) | (hb << 8) | lb
            if bin(body).count("1") % 2:
                body |= 0x80 << 24
            frame = f"RP --- {OTB} {GID} --:------ 3220 005 00{body:08X}"
            ups = [(("otb", OTB, attr), hb + (0.5 if lb else 0.0))]
        elif kind == "3150_fc":
            counter[0] += 1
            d = (counter[0] * 3) % 201
            frame = f" I --- {CTL} --:------ {CTL} 3150 002 FC{d:02X}"
            ups = [(("tcs", "", "heat_demand"), d / 200)]
        elif kind == "1260":
            v = fresh_val(1000, 7000)
            frame = f"{rp} 1260 003 00{hx(v)}"
            ups = [(("dhw", "", "temperature"), v / 100)]
        elif kind == "10A0":
            v = fresh_val(3000, 8000)
            frame = f"RP --- {CTL} {GID} --:------ 10A0 006 00{hx(v)}0503E8"
            ups = [(("dhw", "", "setpoint"), v / 100)]
        elif kind == "1F41":
            m = o.get("m", "00")
            m = m if m in ("00", "02") else "00"
            frame = f"{rp} 1F41 006 00{'01' if counter[0] % 2 else '00'}{m}FFFFFF"
            ups = [(("dhw", "", "mode"), MODES_2349[m])]
        elif kind == "trv_30C9":
            v = fresh_val()
            frame = f" I --- {trv[z]} --:------ {trv[z]} 30C9 003 00{hx(v)}"
            ups = [(("dev", trv[z], "temperature"), v / 100)]
        elif kind == "trv_3150":
            counter[0] += 1
            d = (counter[0] * 3) % 201
            frame = f" I --- {trv[z]} --:------ {CTL} 3150 002 {z}{d:02X}"
            ups = [(("dev", trv[z], "heat_demand"), d / 200)]
        elif kind == "trv_12B0":
            counter[0] += 1
            w = counter[0] % 2 == 0
            frame = f" I --- {trv[z]} --:------ {CTL} 12B0 003 {z}{'C800' if w else '0000'}"
            ups = [(("dev", trv[z], "window_open"), w)]
        elif kind == "trv_2309":
            v = fresh_val(500, 3500)
            frame = f" I --- {trv[z]} --:------ {CTL} 2309 003 {z}{hx(v)}"
            ups = [(("dev", trv[z], "setpoint"), v / 100)]
        elif kind == "thm_30C9":
            v = fresh_val()
            frame = f" I --- {thm} --:------ {thm} 30C9 003 00{hx(v)}"
            ups = [(("dev", thm, "temperature"), v / 100)]
        elif kind == "bdr_0008":
            counter[0] += 1
            d = (counter[0] * 5) % 201
            frame = f"RP --- {bdr} {GID} --:------ 0008 002 00{d:02X}"
            ups = [(("dev", bdr, "relay_demand"), d / 200)]
        elif kind == "dhw_1260":
            v = fresh_val(1000, 7000)
            frame = f" I --- {dhws} --:------ {dhws} 1260 003 00{hx(v)}"
            ups = [(("dev", dhws, "temperature"), v / 100)]
        else:
            return
        if deliver(frame, ups, n):
            await asyncio.sleep(0.06)
            ctx.ab(kind[:6])
            await check(f"{where} after delivery of {frame!r}", [u[0] for u in ups])
        else:
            await asyncio.sleep(0.01)

    async def noise(o, where) -> None:
        kind, z, v = o["kind"], o["z"], o["v"]
        other = f"{(int(z, 16) + 1) % 12:02X}"
        fr = {
            "rq": f"RQ --- {GID} {CTL} --:------ 30C9 001 {z}",
            "w_2309": f" W --- {GID} {CTL} --:------ 2309 003 {z}{hx(v)}",
            "w_2349": f" W --- {GID} {CTL} --:------ 2349 007 {z}{hx(v)}02FFFFFF",
            "rq_2349": f"RQ --- {GID} {CTL} --:------ 2349 001 {z}",
            "foreign_30C9": f" I --- {CTL2} --:------ {CTL2} 30C9 006 {z}{hx(v)}{other}{hx(v + 1)}",
            "foreign_2309": f" I --- {CTL2} --:------ {CTL2} 2309 006 {z}{hx(v)}{other}{hx(v + 1)}",
            "foreign_000A": f" I --- {CTL2} --:------ {CTL2} 000A 012 {z}1001F4{hx(v)}{other}1001F4{hx(v + 1)}",
            "other_trv": f" I --- 04:199999 --:------ 04:199999 30C9 003 00{hx(v)}",
            "3150_zone": f" I --- {CTL} --:------ {CTL} 3150 002 {z}{v % 201:02X}",  # the controller's per-zone demand: not the system's
        }[kind]
        if kind.startswith(("rq", "w_")):  # what the gateway itself transmitted comes back as an echo
            hub.rx_line(ser, fr.replace("18:000730", GID), rssi="000")
        else:
            hub.rx_line(ser, fr)
        hub.count("interleaved_noise")
        await asyncio.sleep(0.03)
        ctx.ab("n")

    async def thresholds(o, where) -> None:
        """`_expired` at chosen ages of one fresh message of a given kind."""
        kind = o["kind"]
        z = zones[0]
        cd = o.get("cd", 1855)
        v = fresh_val()
        arr = "".join(f"{zz}{hx(v + i)}" for i, zz in enumerate(zones))
        table = {
            "30C9_arr": (f" I --- {CTL} --:------ {CTL} 30C9 {len(arr) // 2:03d} {arr}", len(zones)),
            "2309_arr": (f" I --- {CTL} --:------ {CTL} 2309 {len(arr) // 2:03d} {arr}", len(zones)),
            "30C9_rp": (f"RP --- {CTL} {GID} --:------ 30C9 003 {z}{hx(v)}", 1),
            "2309_rp": (f"RP --- {CTL} {GID} --:------ 2309 003 {z}{hx(v)}", 1),
            "2349": (f" I --- {CTL} --:------ {CTL} 2349 007 {z}{hx(v)}00FFFFFF", 1),
            "000A_arr": (f" I --- {CTL} --:------ {CTL} 000A {len(zones) * 6:03d} " + "".join(f"{zz}1001F40DAC" for zz in zones), len(zones)),
            "000A_rp": (f"RP --- {CTL} {GID} --:------ 000A 006 {z}1001F40DAC", 1),
            "12B0": (f" I --- {trv[z]} --:------ {CTL} 12B0 003 {z}0000", 1),
            "1F09": (f" I --- {CTL} --:------ {CTL} 1F09 003 FF{cd:04X}", 1),
            "1F09rp": (f"RP --- {CTL} {GID} --:------ 1F09 003 00{cd:04X}", 1),
            "3150": (f" I --- {trv[z]} --:------ {CTL} 3150 002 {z}64", 1),
            "rq": (f"RQ --- {GID} {CTL} --:------ 2309 001 {z}", 1),
            "w": (f" W --- {GID} {CTL} --:------ 2309 003 {z}{hx(v)}", 1),
            "0005": (f"RP --- {CTL} {GID} --:------ 0005 004 00080F00", 1),
            "000C": (f"RP --- {CTL} {GID} --:------ 000C 006 {z}0400{(4 << 18) + 100000 + int(z, 16):06X}", 1),
            "0006": (f"RP --- {CTL} {GID} --:------ 0006 004 00050005", 1),
            "3220s": (f"RP --- 10:100400 {GID} --:------ 3220 005 0040031300", 1),
            "3220p": (f"RP --- 10:100400 {GID} --:------ 3220 005 00C0305014", 1),
            "3220c": (f"RP --- 10:100400 {GID} --:------ 3220 005 0040194100", 1),
            "1260": (f" I --- {dhws} --:------ {dhws} 1260 003 00{hx(v)}", 1),
            "10A0": (f"RP --- {CTL} {GID} --:------ 10A0 006 0013880503E8", 1),
            "2E04": (f" I --- {CTL} --:------ {CTL} 2E04 008 00FFFFFFFFFFFF00", 1),
            "313F": (f"RP --- {CTL} {GID} --:------ 313F 009 00FC0029D6050B07E7", 1),
            "0008": (f"RP --- {bdr} {GID} --:------ 0008 002 0064", 1),
            "10E0": (f" I --- {trv[z]} --:------ 63:262142 10E0 038 000002FF0412FFFFFFFF0E0607E50A0C07E4485239322052616469617"
                     f"46F72204374726C2E00", 1),
            "0004": (f"RP --- {CTL} {GID} --:------ 0004 022 {z}00{'Kitchen'.encode().hex().upper()}{'00' * 13}", 1),
            "1FC9rp": (f"RP --- {bdr} {GID} --:------ 1FC9 012 003EF034B2C8003B0034B2C8", 1),
            "31DA": (" I --- 32:100500 --:------ 32:100500 31DA 030 00EF007FFF3DF208FE0938096D084DF80000183446000063EF0F300B4800", 1),
        }
        if kind not in table:
            return
        frame, n = table[kind]
        L = lifetime(frame[:2], frame[37:41], frame[46:], n)
        n0 = len(seen)
        if kind in ("rq", "w"):
            hub.rx_line(ser, frame, rssi="000")
        else:
            hub.rx_line(ser, frame)
        await asyncio.sleep(0.05)
        msg = next((m for m in seen[n0:] if str(m._pkt)[4:] == frame or frame in str(m._pkt)), None)
        if msg is None:
            ctx.probe(f"threshold_probe_not_decoded_{kind}")
            return
        # the model also learns what this frame carries (it is ordinary traffic)
        if kind in ("30C9_arr", "2309_arr"):
            for i, zz in enumerate(zones):
                put(("zone", zz, "temperature" if kind[:4] == "30C9" else "setpoint"), (v + i) / 100, L, frame)
        elif kind in ("30C9_rp", "2309_rp"):
            put(("zone", z, "temperature" if kind[:4] == "30C9" else "setpoint"), v / 100, L, frame)
        else:
            for key in list(model):  # anything else of the same code: forget what we believed (the probe's value is not tracked)
                if model[key] and model[key][-1][3][37:41] == frame[37:41]:
                    del model[key]
        dtm = msg.dtm
        ctx.ab(f"T{kind[:5]}")
        if L is None:
            ages = [0.0, 10.0, 3700.0, 90000.0, 900000.0]
        else:
            # (a read at age 3 - L, inside the library's grace, is where its fraction-expired is exactly -1)
            ages = [0.0, L / 2, L - 0.002, L + 0.002, 1.5 * L, 3.0 - L, 3.0 - 2 * L, 2 * L + 2.99, 2 * L + 3.01, 2 * L + GRACE + 0.01, 3 * L + 60, 5 * L + 600]
        was = False
        for age in sorted(set(a for a in ages if a >= 0)):
            target = dtm + _dt.timedelta(seconds=age)
            cur = now()
            if target > cur:
                clock.jump((target - cur).total_seconds())
                hub.count("clock_jump")
            real_age = (now() - dtm).total_seconds()
            try:
                e = bool(msg._expired)
            except Exception as err:  # noqa
                ctx.violate("C14", "expired_raised", f"{frame[37:41]}:{exc_sig(err)}", f"{where}: _expired of {frame!r} at age "
                            f"{real_age:.3f} s raised {type(err).__name__}: {err}")
                return
            ctx.probe("expiry_evaluations")
            if was and not e:
                ctx.violate("C14", "expiry_unhappened", frame[37:41], f"{where}: {frame!r} was expired and at age {real_age:.3f} s is not")
            was = was or e
            if L is None:
                if e:
                    ctx.violate("C14", "expired_early", f"{frame[:2].strip()}|{frame[37:41]}", f"{where}: {frame!r} (a request/write: "
                                f"no lifetime) is reported expired at age {real_age:.1f} s")
                    return
            elif real_age < L and e:
                ctx.violate("C14", "expired_early", f"{frame[:2].strip()}|{frame[37:41]}{'a' if n > 1 else ''}", f"{where}: {frame!r} is "
                            f"reported expired at age {real_age:.3f} s, before its lifetime of {L} s has passed")
                return
            elif real_age >= 2 * L + GRACE and not e:
                ctx.violate("C14", "expired_late", f"{frame[:2].strip()}|{frame[37:41]}{'a' if n > 1 else ''}", f"{where}: {frame!r} is "
                            f"still not expired at age {real_age:.3f} s: lifetime {L} s, twice that plus grace = {2 * L + GRACE} s")
                return
        await asyncio.sleep(0.01)

    for si, o in enumerate(plan.ops):
        kind = o["op"]
        where = f"op {si}"
        if kind == "tx":
            await tx(o, where)
        elif kind == "noise":
            await noise(o, where)
            await check(f"{where} after noise {o['kind']}")
        elif kind == "adv":
            clock.jump(float(o["s"]))
            hub.count("clock_jump")
            await asyncio.sleep(0.01)
            await check(f"{where} after {o['s']} s")
        elif kind == "sample":
            await check(f"{where} sample")
        elif kind == "thresholds":
            await thresholds(o, where)
            await check(f"{where} after thresholds({o['kind']})")
    await gwy.stop()
    await asyncio.sleep(0.1)
    gc.collect()
    ctx.nontrivial = not k("fault_free")
    ctx.ab(f"{len(zones)}z dhw={k('dhw')}")
    ctx.sample = {"scenario": "fresh", "zones": zones, "dhw": k("dhw"), "ops": len(plan.ops), "first_ops": plan.ops[:5],
                  "p_drop": k("p_drop"), "p_dup": k("p_dup"), "p_noise": k("p_noise")}
