"""Engine `state`, scenario `restore` (C16): crash/restart.  The only durable state is what get_state() returned
(schema + packet dict) -- exactly what Home Assistant persists.  At seeded prefixes of a live history:

    S1 = get_state(exp)            on the running gateway (loop drained first)
    crash: a *fresh* Gateway on the same dongle id is built from S1.schema and started with cached_packets=S1.packets
           (optionally after a downtime, during which the wall clock moves on)
    S2 = fresh.get_state(exp)      must equal S1 (packets; schema when eavesdropping is off)
    restore S1 again into the fresh gateway -> S3 == S2; restore S1 into the original gateway -> S4 == S1
and S1 itself: every entry decodes, no RQ, no W other than 0404 fragments, nothing expired unless asked for.
"""
from __future__ import annotations

import asyncio
import json
import datetime as _dt
import gc
import io

from .. import clock, world  # noqa: F401
from ..runner import exc_sig

import ramses_tx.transport as T
from ramses_rf import Gateway
from ramses_rf.helpers import shrink
from ramses_tx.message import Message
from ramses_tx.packet import Packet
from ramses_tx.ramses import CODES_BY_DEV_SLUG

GID = "18:006402"


def generate(plan, build_history) -> None:
    r = plan.rng("gen")
    k = plan.d["knobs"]
    k["eavesdrop"] = r.random() < 0.25
    ops = build_history(r, k, n_lo=20, n_hi=160)
    n = len(ops)
    extra = []
    for _ in range(r.choice([1, 1, 2, 3])):
        extra.append((r.randrange(max(1, n // 4), n + 1), {"op": "snap", "exp": r.random() < 0.4,
                                                           "down": r.choice([0, 0, 0, 30, 400, 4000, 90000]),
                                                           "drain": r.random() < 0.9, "stall": r.choice([0, 0, 0.3, 1.5, 4.0]),
                                                           "bare": r.random() < 0.4, "fed": r.choice(["port", "port", "log"])}))
    for _ in range(r.choice([0, 0, 1, 2])):
        extra.append((r.randrange(n + 1), {"op": "adv", "s": r.choice([30, 200, 400, 800, 3700, 7300, 90000]), "how": "jump"}))
    for _ in range(r.choice([0, 1, 2])):  # a burst: several frames in one read (they get timestamps microseconds apart, or equal)
        i = r.randrange(n)
        for j in range(i, min(n, i + r.choice([2, 3, 5]))):
            ops[j]["gap"] = 0.0
    extra.sort(key=lambda e: e[0])
    out, j = [], 0
    for i, o in enumerate(ops):
        while j < len(extra) and extra[j][0] <= i:
            out.append(extra[j][1])
            j += 1
        out.append(o)
    out.extend(e[1] for e in extra[j:])
    out.append({"op": "snap", "exp": False, "down": 0, "drain": True, "pin": True})
    plan.d["ops"] = out


def _decode(dtm: str, line: str):
    pkt = Packet.from_dict(dtm, line)
    return Message(pkt)


async def run(ctx) -> None:
    from .state import start_gateway

    plan, loop, hub = ctx.plan, ctx.loop, ctx.hub
    k = plan.knob
    hub.cast_between_ports = False
    gwy, ser = await start_gateway(ctx, k)
    await gwy.start()
    await asyncio.sleep(0.3)
    n_rx = 0
    n_snap = 0
    delivered: list = []  # (dtm as stamped by the library, frame) of every message the gateway handled
    gwy.add_msg_handler(lambda m: delivered.append((m.dtm, str(m._pkt))))
    eaves = bool(k("eavesdrop"))
    for name, n in sorted((k("hist_counts") or {}).items()):
        hub.count(name, n)

    def expired_now(g, dtm, line) -> bool | None:
        try:
            m = _decode(dtm, line)
            m._gwy = g
            return bool(m._expired)
        except Exception:  # noqa
            return None

    def contents(S, exp, where, g=None):
        """what a snapshot may hold"""
        g = g or gwy
        for dtm, line in S[1].items():
            try:
                m = _decode(dtm, line)
            except Exception as err:  # noqa
                ctx.violate("C16", "undecodable_in_snapshot", exc_sig(err), f"{where}: snapshot entry {dtm} {line!r} is rejected by "
                            f"the decoder: {type(err).__name__}: {str(err)[:200]}")
                continue
            if m.verb == "RQ":
                ctx.violate("C16", "request_in_snapshot", m.code, f"{where}: the snapshot contains a request: {dtm} {line!r}")
            elif m.verb == " W" and m.code != "0404":
                ctx.violate("C16", "write_in_snapshot", m.code, f"{where}: the snapshot contains a write that is not a schedule fragment: "
                            f"{dtm} {line!r}")
            if not exp:
                m._gwy = g
                try:
                    e = m._expired
                except Exception:  # noqa
                    e = None
                if e:
                    ctx.violate("C16", "expired_in_snapshot", m.code, f"{where}: get_state(include_expired=False) returned an expired "
                                f"packet: {dtm} {line!r} (now {g._dt_now()})")

    async def snap(o, where):
        nonlocal n_snap
        n_snap += 1
        exp = bool(o.get("exp"))
        if o.get("drain", True):
            await asyncio.sleep(0.05)
        else:
            ctx.probe("snapshot_without_drain_(not_judged)")
        try:
            S1 = gwy.get_state(include_expired=exp)
        except Exception as err:  # noqa
            ctx.violate("C13", "view_raised", f"Gateway.get_state:{exc_sig(err)}", f"{where}: get_state raised {type(err).__name__}: {err}")
            return
        contents(S1, exp, where)
        ctx.probe("snapshot_packets", len(S1[1]))
        if not o.get("drain", True):
            return
        down = float(o.get("down") or 0)
        if down:
            clock.jump(down)
            hub.count("downtime")
            await asyncio.sleep(0.01)
        # -- the crash: nothing but S1 survives ------------------------------------------------------------
        name = f"/dev/simr{n_snap}"
        hub.add_port(name, GID)
        cfg = {"disable_discovery": True, "enforce_known_list": False, "enable_eavesdrop": eaves, "max_zones": k("max_zones", 12)}
        kl = {}
        if k("known_list"):
            cfg["enforce_known_list"] = True
            kl = {"known_list": {i: {} for i in k("known_list")}}
            ctx.probe("restart_with_an_enforced_known_list")
        g2 = None
        try:
            if o.get("fed") == "log":  # the restarted application replays a packet log (here: one with nothing in it yet)
                ctx.probe("fresh_gateway_fed_by_a_packet_log")
                cfg2 = {x: y for x, y in cfg.items() if x != "disable_discovery"}
                g2 = Gateway(None, input_file=io.TextIOWrapper(io.BytesIO(b"")), config=cfg2, **kl, **({} if o.get("bare") else S1[0]))
            else:
                g2 = Gateway(name, config=cfg, **kl, **({} if o.get("bare") else S1[0]))
            if o.get("stall"):  # a slow host: restoring the cache takes about that many seconds
                loop.iter_cost = float(o["stall"]) / max(60, 3 * len(S1[1]))
                hub.count("slow_host_during_restore")
            await g2.start(cached_packets=dict(S1[1]))
            loop.iter_cost = 0.0
            await asyncio.sleep(0.3)
            S2 = g2.get_state(include_expired=exp)
        except Exception as err:  # noqa
            loop.iter_cost = 0.0
            ctx.violate("C16", "restart_raised", exc_sig(err), f"{where}: starting a fresh gateway from the snapshot raised "
                        f"{type(err).__name__}: {str(err)[:300]}")
            if g2 is not None:
                try:
                    await g2.stop()
                except Exception:  # noqa
                    pass
            return
        # the fresh process announces itself on the radio (its own 7FFF signature echo): that is live traffic received after
        # the restart, not part of what was restored -- it is left out on both sides
        own = f" I --- {GID} 63:262142 --:------ 7FFF "
        S1 = (S1[0], {d: l for d, l in S1[1].items() if own not in l})
        S2 = (S2[0], {d: l for d, l in S2[1].items() if own not in l})
        contents(S2, exp, where + " (fresh gateway)", g2)
        how = " (given the packets only, not the schema)" if o.get("bare") else ""
        if o.get("bare"):
            ctx.probe("fresh_gateway_given_packets_only")
        compare(S1, S2, g2, where, "fresh", (f"snapshot -> {down:.0f} s downtime -> fresh gateway{how} -> snapshot" if down else
                                             f"snapshot -> fresh gateway{how} -> snapshot"), bare=bool(o.get("bare")))
        # restoring the same snapshot again changes nothing
        try:
            await g2._restore_cached_packets(dict(S1[1]))
            await asyncio.sleep(0.1)
            S3 = g2.get_state(include_expired=exp)
            S3 = (S3[0], {d: l for d, l in S3[1].items() if own not in l})
            compare(S2, S3, g2, where, "twice", "restoring the same snapshot a second time into the fresh gateway", origin=S1)
        except Exception as err:  # noqa
            ctx.violate("C16", "restore_raised", exc_sig(err), f"{where}: restoring twice raised {type(err).__name__}: {err}")
        await g2.stop()
        # ... nor does restoring it into the gateway that already holds that state
        if not down:
            try:
                await gwy._restore_cached_packets(dict(S1[1]))
                await asyncio.sleep(0.1)
                S4 = gwy.get_state(include_expired=exp)
                S4 = (S4[0], {d: l for d, l in S4[1].items() if own not in l})
                compare(S1, S4, gwy, where, "same", "restoring the snapshot into the gateway it came from")
            except Exception as err:  # noqa
                ctx.violate("C16", "restore_raised", exc_sig(err), f"{where}: restoring into the original raised {type(err).__name__}: {err}")

    def sdiff(a, b) -> str:
        a, b = shrink(a), shrink(b)
        out = []
        for key in sorted(set(a) | set(b)):
            if a.get(key) != b.get(key):
                out.append(f"{key}: {str(a.get(key))[:300]} -> {str(b.get(key))[:300]}")
        return "; ".join(out)[:900]

    hc = k("hist_counts") or {}
    contradictory = bool(hc.get("hist_field_mutation") or hc.get("hist_targeted_extreme"))

    def superseded_topology() -> bool:
        """the controller described the same thing twice, differently (000C / 0005 replies of one context with another content): the
        live schema accumulated both, the state db -- hence the snapshot -- keeps the latest only"""
        seen: dict = {}
        for (_t, f) in delivered:
            if f[37:41] in ("000C", "0005") and f[:2] in (" I", "RP"):
                key = (f[7:16], f[37:41], f[:2], f[46:50])
                if seen.setdefault(key, f[46:]) != f[46:]:
                    return True
        return False

    def compare(A, B, g, where, tag, what, origin=None, bare=False):
        if bare and not (contradictory or superseded_topology()) and any(
                f[:2] in (" I", "RP") and expired_now(gwy, t.isoformat(timespec="microseconds"), f"... {f}") for (t, f) in delivered):
            ctx.probe("packets_only_restart:_schema_not_judged_(some_of_the_history_has_expired)")
            sch = lambda x: {}  # noqa: E731
        elif bare and (contradictory or superseded_topology()):
            ctx.probe("packets_only_restart:_schema_not_judged_(the_history_contradicts_itself)")
            sch = lambda x: {}  # noqa: E731
        elif bare:
            sch = lambda x: {a: b for a, b in x.items() if a != "main_tcs"}  # noqa: E731
        else:
            sch = lambda x: x  # noqa: E731
        """B (taken later, on gateway g) must be A: nothing added, nothing changed, nothing lost except what has expired by now
        (the library drops an expired message when it is next read); the schema identical when eavesdropping is off."""
        new = []
        for d in B[1]:
            if d not in A[1]:
                if origin is not None and origin[1].get(d) == B[1][d] and expired_now(g, d, B[1][d]):
                    ctx.probe("expired_packet_of_the_snapshot_back_after_a_second_restore")  # dropped when read, restored again
                else:
                    new.append(f"{d} {B[1][d]}")
        chg = [d for d in A[1] if d in B[1] and A[1][d] != B[1][d]]
        lost = []
        lost_keys = []
        reclassed = False
        for d in A[1]:
            if d not in B[1]:
                if expired_now(g, d, A[1][d]):
                    ctx.probe("dropped_on_restore_because_expired_by_then")
                else:
                    lost.append(f"{d} {A[1][d]}")
                    lost_keys.append(d)
                    parts = A[1][d].split(" # ")[0].split()
                    src = next((x for x in parts[2:6] if x[2:3] == ":" and x[:2] != "--"), None)
                    code = next((x for x in parts[5:8] if len(x) == 4 and ":" not in x), "")
                    db = g.device_by_id.get(src)
                    slug = getattr(db, "_SLUG", None)
                    verb = A[1][d][4:6]
                    if eaves and slug in CODES_BY_DEV_SLUG and verb not in CODES_BY_DEV_SLUG[slug].get(code, {}):
                        reclassed = True
                        da = gwy.device_by_id.get(src)
                        lost[-1] += (f" [its source is a {type(da).__name__} in the original gateway and a {type(db).__name__} when the "
                                     f"packet is restored: that class does not send {verb}|{code}]")
        def merged_fragment(d) -> bool:
            """a controller's / UFC's I|000A or I|22C9 with another one of the same source within 3 s: the library merges such
            pairs into one array message (detect_array_fragment), which is what KF9 is about"""
            line = A[1][d]
            parts = line.split(" # ")[0].split()
            if line[4:6] != " I" or not any(c in parts[5:8] for c in ("000A", "22C9")):
                return False
            src = next((x for x in parts[2:6] if x[2:3] == ":" and x[:2] != "--"), None)
            code = next(c for c in ("000A", "22C9") if c in parts[5:8])
            t = _dt.datetime.fromisoformat(d)
            n = 0
            for (t2, f2) in delivered:  # the history as delivered (the partner may have been displaced from the state db already)
                if f2[:2] == " I" and f2[7:16] == src and f2[37:41] == code and abs((t2 - t).total_seconds()) < 3.0:
                    n += 1
            return n >= 2  # itself and at least one partner

        def held_only_by_unlisted_addressee(d) -> bool:
            """the original gateway holds this packet only in the store of a device that is not its source (a fakeable device
            keeps what is addressed to it), and the snapshot's schema does not list that device (its own packets have expired):
            a fresh gateway, eavesdropping off, creates no device for a mere destination address (KF13)"""
            line = A[1][d]
            parts = line.split(" # ")[0].split()
            src = next((x for x in parts[2:6] if x[2:3] == ":" and x[:2] != "--"), None)
            holders = [dev for dev in gwy.devices if any(repr(m._pkt)[:26] == d for m in dev._msg_db)]
            listed = json.dumps(A[0])
            return bool(holders) and all(h.id != src and h.id not in listed for h in holders)

        if lost or new or chg:
            kind = "lost" if lost else ("added" if new else "changed")
            def src_code(d):
                parts = A[1][d].split(" # ")[0].split()
                return (next((x for x in parts[2:6] if x[2:3] == ":" and x[:2] != "--"), None),
                        next((c for c in ("000A", "22C9") if c in parts[5:8]), None), A[1][d][4:6])

            def safely(fn):  # a snapshot entry in an unexpected format (that is a finding of its own) must not break the classification
                def wrapped(d):
                    try:
                        return fn(d)
                    except Exception:  # noqa
                        return False
                return wrapped

            merged_fragment, held_only_by_unlisted_addressee = safely(merged_fragment), safely(held_only_by_unlisted_addressee)
            try:
                re_ctx = {src_code(d) for d in A[1] if merged_fragment(d)}  # fragments that a restore may put into another context ...
            except Exception:  # noqa
                re_ctx = set()
            if not new and (lost or chg) and all(merged_fragment(d) or (src_code(d) in re_ctx and src_code(d)[1]) for d in lost_keys + chg):
                kind = "array_fragment_merge"  # ... where they displace the packet that was there
            if kind == "lost" and reclassed:
                kind = "lost_rejected_by_eavesdropped_class"
            elif kind == "lost" and not eaves and g is not gwy and all(held_only_by_unlisted_addressee(d) for d in lost_keys):
                kind = "lost_held_only_by_unlisted_addressee"
            if kind == "changed" and all(A[1][d].split(" # ")[0] == B[1][d].split(" # ")[0] for d in chg):  # (other codes)
                kind = "reinterpreted"  # same frames, but the later snapshot gives one another context (the '# hdr (ctx)' hint)
            first = (lost or new or [f"{chg[0]} {A[1][chg[0]]}"])[0].split(" ")
            code = next((first[i + 1] for i, x in enumerate(first) if x.count(":") == 1 and len(x) == 9 and i + 1 < len(first)
                         and len(first[i + 1]) == 4), "")
            ctx.violate("C16", f"packets_{kind}", f"{code}:{tag}", f"{where}: {what}: {len(A[1])} -> {len(B[1])} packets; lost={lost[:3]} "
                        f"added={new[:3]} changed={[(d, A[1][d], B[1][d]) for d in chg[:2]]}")
        elif not eaves and tag != "downtime" and shrink(sch(A[0])) != shrink(sch(B[0])):
            if "downtime" in what or any(expired_now(g, d, l) or expired_now(gwy, d, l) for d, l in A[1].items()):
                # which devices are 'present' depends on live packets: if some of the snapshot's packets have expired by now ...
                ctx.probe("schema_differs_after_downtime_(expiry,_not_judged)")
            elif hc.get("hist_topology_edit"):
                # C16 quantifies over histories derived from the logs by prefixes, splices, deletions and duplications; an edited
                # 000C / 0005 / zone index can state a contradictory topology (one device in two roles), and which statement wins
                # then depends on the order -- that is C15's subject (the inconsistency must be reported), not a fixpoint failure
                ctx.probe("schema_differs_in_a_history_with_an_edited_topology_(not_judged)")
            else:
                ctx.violate("C16", "schema_differs", tag, f"{where}: {what}: the schema differs: {sdiff(A[0], B[0])}")

    for si, o in enumerate(plan.ops):
        kind = o["op"]
        where = f"op {si} ({kind}) after {n_rx} packets"
        if kind == "rx":
            hub.rx_line(ser, o["f"])
            n_rx += 1
            if o.get("gap", 0.004) > 0:
                await asyncio.sleep(o["gap"])
        elif kind == "adv":
            clock.jump(float(o["s"]))
            hub.count("clock_jump")
            await asyncio.sleep(0.01)
        elif kind == "snap":
            await snap(o, where)
    await gwy.stop()
    await asyncio.sleep(0.1)
    gc.collect()
    ctx.nontrivial = not k("fault_free")
    ctx.ab(f"{k('base')}|{k('splice')}|{eaves}|{k('max_zones')}")
    ctx.ab(",".join(f"{o['op'][:2]}{int(bool(o.get('exp')))}{o.get('down', '')}" for o in plan.ops if o["op"] != "rx"))
    ctx.sample = {"scenario": "restore", "base": k("base"), "splice": k("splice"), "packets": n_rx, "eavesdrop": eaves,
                  "snapshots": [o for o in plan.ops if o["op"] == "snap"][:4]}
