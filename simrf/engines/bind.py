"""Engine `bind` (C20): binding handshakes between a faked supplicant and a faked respondent.

Two real Gateways (one per role, each on its own FakeSerial / evofw3 firmware id) share one VLoop and one RF hub.  The
harness decides, per transmitted frame and per receiver, whether it is heard, lost, repeated (RF devices send each frame
three times; two copies may share one read) or delayed (latencies placed around the 3 s / 5 s / 5.1 s waits), whether the
sender hears its own echo, and when unrelated binding traffic (third-party offers / accepts / confirms) is on the air;
plus loop stalls and timer ties.  Flows: the five pairings of the repository's test-suite (RND->CTL, DHW->CTL, CO2->FAN
itho, REM->FAN nuaire, DIS->FAN orcon), with their own code lists, idx and 10E0 addenda.

Oracles
  success   with nothing lost (repeats, echoes and unrelated traffic allowed) both ends return, with equal
            (offer, accept, confirm[, addendum]) tuples that are the frames seen on the wire
  ends      every attempt, on either side, ends within the sum of its stated waits with a tuple or an error of the
            binding family (BindingError...; a ProtocolSendFailed from the send path is documented to propagate)
  cleanup   afterwards neither device is binding, nothing reached the loop's exception handler, and a second
            attempt with the faults off succeeds
"""
from __future__ import annotations

import asyncio
import gc

from .. import world  # noqa: F401
from ..runner import exc_sig

import ramses_tx.transport as T
from ramses_rf import Gateway
from ramses_rf import exceptions as rexc
from ramses_rf.binding_fsm import BindContext
from ramses_rf.device import Fakeable
from ramses_tx import Command
from ramses_tx import exceptions as texc

GID_R = "18:000001"
GID_S = "18:000002"

FLOWS = {
    "rnd_ctl": {
        "resp": {"01:220768": {"class": "CTL"}}, "supp": {"34:259472": {"class": "RND", "faked": True}},
        "pkts": (" I --- 34:259472 --:------ 34:259472 1FC9 024 0023098BF5900030C98BF5900000088BF590001FC98BF590",
                 " W --- 01:220768 34:259472 --:------ 1FC9 006 012309075E60",
                 " I --- 34:259472 01:220768 --:------ 1FC9 006 0123098BF590")},
    "dhw_ctl": {
        "resp": {"01:145038": {"class": "CTL"}}, "supp": {"07:045960": {"class": "DHW", "faked": True}},
        "pkts": (" I --- 07:045960 --:------ 07:045960 1FC9 012 0012601CB388001FC91CB388",
                 " W --- 01:145038 07:045960 --:------ 1FC9 006 0010A006368E",
                 " I --- 07:045960 01:145038 --:------ 1FC9 006 0012601CB388")},
    "co2_fan": {
        "resp": {"18:126620": {"class": "FAN", "scheme": "itho"}},
        "supp": {"37:154011": {"class": "CO2", "scheme": "itho", "faked": True}},
        "pkts": (" I --- 37:154011 --:------ 37:154011 1FC9 030 0031E096599B00129896599B002E1096599B0110E096599B001FC996599B",
                 " W --- 18:126620 37:154011 --:------ 1FC9 012 0031D949EE9C0031DA49EE9C",
                 " I --- 37:154011 18:126620 --:------ 1FC9 001 00",
                 " I --- 37:154011 63:262142 --:------ 10E0 038 00000100280901" "01" "FEFFFFFFFFFF140107E5564D532D31324333390000000000000000000000")},
    "rem_fan": {
        "resp": {"30:098165": {"class": "FAN", "scheme": "nuaire"}},
        "supp": {"32:208628": {"class": "REM", "scheme": "nuaire", "faked": True}},
        "pkts": (" I --- 32:208628 --:------ 32:208628 1FC9 018 0022F1832EF46C10E0832EF4001FC9832EF4",
                 " W --- 30:098165 32:208628 --:------ 1FC9 006 2131DA797F75",
                 " I --- 32:208628 30:098165 --:------ 1FC9 001 21",
                 " I --- 32:208628 63:262142 --:------ 10E0 030 000001C85A0101" "6C" "FFFFFFFFFFFF010607E0564D4E2D32334C4D48323300")},
    "dis_fan": {
        "resp": {"32:155617": {"class": "FAN", "scheme": "orcon"}}, "supp": {"37:171871": {"class": "DIS", "faked": True}},
        "pkts": (" I --- 37:171871 --:------ 37:171871 1FC9 024 0022F1969F5F0022F3969F5F6710E0969F5F001FC9969F5F",
                 " W --- 32:155617 37:171871 --:------ 1FC9 012 0031D9825FE10031DA825FE1",
                 " I --- 37:171871 32:155617 --:------ 1FC9 001 00",
                 " I --- 37:171871 63:262142 --:------ 10E0 038 000001C8940301" "67" "FFFFFFFFFFFF1B0807E4564D492D313557534A3533000000000000000000")},
}
THIRD = {"ctl": "01:199001", "thm": "34:199002", "fan": "32:199003", "rem": "37:199004"}
LAT_AROUND = [0.01, 0.02, 0.05, 0.3, 0.79, 0.81, 1.5, 2.9, 2.99, 3.01, 3.1, 4.9, 4.99, 5.01, 5.09, 5.11, 5.3, 7.0]


def generate(plan) -> None:
    if plan.d["scenario"] == "scripted":
        return generate_scripted(plan)
    r = plan.rng("gen")
    k = plan.d["knobs"]
    k["drift"] = 0.0
    k["min_gap"] = 0.05
    k["flow"] = r.choice(sorted(FLOWS))
    k["fault_free"] = r.random() < 0.15
    ff = k["fault_free"]
    mode = "clean" if ff else r.choice(["dups", "dups", "loss", "loss", "delay", "mixed", "mixed", "resp_only", "supp_only",
                                        "cancel_retry", "cancel_retry"])
    if mode == "cancel_retry":  # the caller gives up early and tries again at once; the peer only turns up during the retry
        k["cancel"] = {"who": r.choice(["resp", "supp", "both"]), "at": r.choice([0.05, 0.3, 1.0, 2.5, 4.5]),
                       "retry_gap": r.choice([0.0, 0.01, 0.5, 2.0]), "peer_delay": r.choice([0.0, 1.0, 2.5, 4.0, 4.6])}
    k["mode"] = mode
    k["p_dup"] = 0.0 if ff or mode in ("loss", "delay", "cancel_retry") else r.choice([0.3, 0.6, 1.0])
    k["p_drop"] = 0.0 if ff or mode in ("dups", "delay", "cancel_retry") else r.choice([0.1, 0.3, 0.6])
    k["p_delay"] = 0.0 if ff or mode in ("dups", "loss", "cancel_retry") else r.choice([0.2, 0.5])
    k["p_echo_lost"] = 0.0 if ff or mode == "dups" else r.choice([0.0, 0.0, 0.2])
    k["p_echo_dup"] = 0.0 if ff else r.choice([0.0, 0.3])
    k["tie_rate"] = 0.0 if ff else r.choice([0.0, 0.5])
    k["split_rate"] = 0.0
    k["start_gap"] = r.choice([0.0, 0.0, 0.05, 1.0, 4.9, 5.05, 5.2])  # the supplicant starts this long after the respondent
    k["bare_code"] = r.random() < 0.5
    # the application calls the same API again on a device that is already binding (must be refused, the attempt under way unharmed)
    k["double_call"] = None if ff else r.choice([None, None, None, {"who": "resp", "at": 0.02}, {"who": "resp", "at": 0.6}, {"who": "supp", "at": 0.03}])
    if not ff and plan.rng("gen/dc2").random() < 0.12:  # (own stream) a second call while the 10E0 addendum is in flight
        k["double_call"] = {"who": "supp", "at": "addendum", "delay": plan.rng("gen/dc2d").choice([0.0, 0.002, 0.004, 0.008])}
    k["supp_first"] = r.random() < 0.15
    ops = plan.d["ops"]
    if not ff and mode != "cancel_retry":
        for _ in range(r.choice([0, 0, 1, 2, 4])):
            ops.append({"op": "third", "at": round(r.choice([0.0, 0.02, 0.1, 0.5, 1.0, 3.0, 5.0]) + r.random() * 0.05, 3),
                        "kind": r.choice(["offer", "accept_other", "confirm_other", "accept_to_supp", "offer_late", "confirm_to_resp"])})
        for _ in range(r.choice([0, 0, 1, 2])):
            ops.append({"op": "stall", "at": round(r.choice([0.01, 0.5, 2.9, 4.9, 5.0]) + r.random() * 0.2, 3),
                        "dur": r.choice([0.005, 0.05, 0.3, 1.0, 2.5])})


def ensure_fakeable(dev) -> None:
    """As the repository's tests do for a respondent whose class is not Fakeable (CTL, FAN)."""
    if isinstance(dev, Fakeable):
        if not dev._bind_context:
            dev._make_fake()
        return

    class _Fakeable(dev.__class__, Fakeable):  # type: ignore[misc, name-defined]
        pass

    dev.__class__ = _Fakeable
    dev._bind_context = BindContext(dev)
    dev._make_fake()


def phase_of(line: str) -> str:
    if " 10E0 " in line:
        return "addenda"
    if line[:2] == " W":
        return "accept"
    return "offer" if line[17:26] in ("--:------", "63:262142") else "confirm"


def codes_of(payload: str, skip=("1FC9",)) -> list[str]:
    return [payload[i:i + 4] for i in range(2, len(payload), 12) if payload[i:i + 4] not in skip]


BIND_ERRORS = (rexc.BindingError, texc.ProtocolSendFailed, texc.ProtocolError)


async def run(ctx) -> None:
    if ctx.plan.d["scenario"] == "scripted":
        return await run_scripted(ctx)
    plan, loop, hub = ctx.plan, ctx.loop, ctx.hub
    k = plan.knob
    flow = FLOWS[k("flow")]
    pk = flow["pkts"]
    T.MIN_INTER_WRITE_GAP = k("min_gap", 0.05)
    T.serial_for_url = hub.serial_for_url
    hub.cast_between_ports = False
    ser_r = hub.add_port("/dev/simR", GID_R)
    ser_s = hub.add_port("/dev/simS", GID_S)
    known = {**flow["resp"], **flow["supp"], **{v: {} for v in THIRD.values()}}
    r_id, s_id = next(iter(flow["resp"])), next(iter(flow["supp"]))
    cfg = {"disable_discovery": True, "disable_qos": False, "enforce_known_list": True}
    gwy_r = Gateway("/dev/simR", config=dict(cfg), known_list={i: dict(v) for i, v in known.items()}, orphans_hvac=[r_id])
    gwy_s = Gateway("/dev/simS", config=dict(cfg), known_list={i: dict(v) for i, v in known.items()}, orphans_hvac=[s_id])
    await gwy_r.start()
    await gwy_s.start()
    await asyncio.sleep(0.5)
    resp = gwy_r.device_by_id[r_id]
    supp = gwy_s.device_by_id[s_id]
    ensure_fakeable(resp)
    ensure_fakeable(supp)
    t0 = loop.time()
    faults_on = [True]
    lossy = [False]  # a frame of the handshake itself was lost or delayed past a wait
    wire: list[tuple[float, str, str]] = []  # (t, port, frame) handshake frames transmitted
    n_tx: dict[str, int] = {}
    for o in plan.ops:
        if o["op"] == "stall":
            loop.add_stall(t0 + o["at"], o["dur"])

    def other(ser):
        return ser_s if ser is ser_r else ser_r

    def echo_policy(ser, frame, nth):
        line = frame.decode("latin-1")
        if not faults_on[0] or (" 1FC9 " not in line and " 10E0 " not in line):
            return [0.01]
        d = plan.decide(f"echo/{ser.name[-1]}/{phase_of(line)}/{nth}",
                        lambda rr: "lost" if rr.random() < k("p_echo_lost", 0.0) else ("dup" if rr.random() < k("p_echo_dup", 0.0) else "ok"), "ok")
        if d != "ok":
            ctx.ab(f"e{ser.name[-1]}{phase_of(line)[:2]}{nth}:{d[:2]}")
        if d == "lost":
            hub.count("echo_lost")
            lossy[0] = True  # the sender will re-transmit or give up: not a loss-free run any more
            return []
        if d == "dup":
            hub.count("echo_dup")
            return [0.01, 0.012]
        return [0.01]

    def on_frame(ser, frame, nth):
        """the ether: what the other gateway hears of this transmission"""
        line = frame.decode("latin-1")
        hs = " 1FC9 " in line or " 10E0 " in line
        if hs:
            wire.append((loop.time() - t0, ser.name, line))
        dst = other(ser)
        if not faults_on[0] or not hs:
            hub.inject(dst, b"045 " + frame + b"\r\n", 0.012)
            return
        key = f"rf/{ser.name[-1]}/{phase_of(line)}/{nth}"

        def gen(rr):
            x = rr.random()
            if x < k("p_drop", 0.0):
                return ["drop"]
            out = ["ok"]
            if rr.random() < k("p_delay", 0.0):
                out = ["delay", rr.choice(LAT_AROUND)]
            if rr.random() < k("p_dup", 0.0):
                n = rr.choice([2, 3, 3])
                out += ["dup", n, rr.choice([0.0, 0.0, 0.02, 0.04, 0.06])]
            return out

        d = plan.decide(key, gen, ["ok"])
        ctx.ab(f"{ser.name[-1]}{phase_of(line)[:2]}{nth}:{d[0][:2]}{'+d' if 'dup' in d else ''}")
        if d[0] == "drop":
            hub.count("rf_drop")
            lossy[0] = True
            return
        lat = 0.012
        if d[0] == "delay":
            lat = float(d[1])
            hub.count("rf_delay")
            if lat > 0.03:
                lossy[0] = True  # may overtake / be overtaken by the next frame, or miss a wait: not a loss-free run
        copies = 1
        gap = 0.0
        if "dup" in d:
            i = d.index("dup")
            copies, gap = int(d[i + 1]), float(d[i + 2])
            hub.count("rf_dup")
        for c in range(copies):
            hub.inject(dst, b"045 " + frame + b"\r\n", lat + c * gap)

    hub.echo_policy = echo_policy
    hub.on_frame = on_frame

    # unrelated binding traffic, at seeded instants, heard by both gateways
    judged_success = [True]

    on_air: list[str] = []

    def third(kind: str):
        c, t_, f, rm = THIRD["ctl"], THIRD["thm"], THIRD["fan"], THIRD["rem"]
        fr = {
            "offer": f" I --- {t_} --:------ {t_} 1FC9 018 002309{0x8BF591:06X}0030C9{0x8BF591:06X}001FC9{0x8BF591:06X}",
            "offer_late": f" I --- {rm} --:------ {rm} 1FC9 012 0022F1{0x96599C:06X}001FC9{0x96599C:06X}",
            "accept_other": f" W --- {c} {t_} --:------ 1FC9 006 002309{0x06368F:06X}",
            "confirm_other": f" I --- {t_} {c} --:------ 1FC9 006 002309{0x8BF591:06X}",
            "accept_to_supp": f" W --- {f} {s_id} --:------ 1FC9 006 0031DA{0x825FE2:06X}",
            "confirm_to_resp": f" I --- {rm} {r_id} --:------ 1FC9 001 00",
        }[kind]
        if kind in ("offer", "offer_late", "accept_to_supp", "confirm_to_resp"):
            judged_success[0] = False  # a competing party in the same handshake: either outcome is by design
        hub.count("third_party")
        on_air.append(fr)
        for ser in (ser_r, ser_s):
            hub.rx_line(ser, fr)

    third_handles = [loop.call_later(o["at"], third, o["kind"]) for o in plan.ops if o["op"] == "third"]

    async def attempt(tag: str, start_gap: float, supp_first: bool, only: str | None = None):
        acc = pk[1][46:]
        accept_codes = codes_of(acc, skip=())
        idx = acc[:2]
        ratify = len(pk) > 3
        offer_codes = codes_of(pk[0][46:], skip=("1FC9", "10E0") if not ratify else ("1FC9",))
        offer_codes = [c for c in offer_codes if c != "10E0"] if ratify else offer_codes
        confirm_code = pk[2][48:52] or None
        ratify_cmd = Command(pk[3]) if ratify else None
        if len(offer_codes) == 1 and k("bare_code"):
            offer_codes = offer_codes[0]  # a single code is passed bare by the public wrappers (e.g. DhwSensor.initiate_binding_process)
        res: dict = {}

        async def side(name, coro, bound):
            ts = loop.time()
            try:
                out = await asyncio.wait_for(coro, bound + 30)
                res[name] = ("ok", out, loop.time() - ts)
            except TimeoutError:
                res[name] = ("hang", None, loop.time() - ts)
            except BaseException as err:  # noqa
                res[name] = ("exc", err, loop.time() - ts)

        async def do_resp():
            await side("resp", resp._wait_for_binding_request(accept_codes, idx=idx, require_ratify=ratify), 25.0)

        async def do_supp():
            await side("supp", supp._initiate_binding_process(offer_codes, confirm_code=confirm_code, ratify_cmd=ratify_cmd), 50.0)

        tasks = []
        dc = k("double_call") if tag == "first" else None
        n_wire0 = len(wire)

        async def again():
            if dc["at"] == "addendum":  # exactly while the supplicant's 10E0 addendum is on its way (sent, its echo not back yet)
                for _ in range(4000):
                    if any(" 10E0 " in ln and ln[7:16] == supp.id for (_t, _n, ln) in wire[n_wire0:]):
                        break
                    await asyncio.sleep(0.002)
                else:
                    return
                await asyncio.sleep(dc.get("delay", 0.003))
            else:
                await asyncio.sleep(dc["at"])
            dev_, what = (resp, "resp") if dc["who"] == "resp" else (supp, "supp")
            if not dev_._bind_context.is_binding:
                return
            hub.count("second_call_while_binding")
            try:
                if what == "resp":
                    await dev_._wait_for_binding_request(accept_codes, idx=idx, require_ratify=ratify)
                else:
                    await dev_._initiate_binding_process(offer_codes, confirm_code=confirm_code, ratify_cmd=ratify_cmd)
                ctx.violate("C20", "second_call_not_refused", what, f"{tag}: a second call on the {what} that was already binding was accepted")
            except rexc.BindingFsmError:
                ctx.probe("second_call_refused")
            except Exception as err:  # noqa
                ctx.violate("C20", "second_call_wrong_exception", f"{what}:{exc_sig(err)}", f"{tag}: a second call on a binding {what} raised "
                            f"{type(err).__name__}({err})")

        if dc:
            tasks.append(loop.create_task(again()))
        if only != "supp":
            if supp_first and only is None:
                tasks.append(loop.create_task(do_supp()))
                await asyncio.sleep(start_gap)
                tasks.append(loop.create_task(do_resp()))
            else:
                tasks.append(loop.create_task(do_resp()))
        if only != "resp" and not (supp_first and only is None):
            await asyncio.sleep(start_gap)
            tasks.append(loop.create_task(do_supp()))
        await asyncio.gather(*tasks)
        return res

    async def cancel_retry() -> None:
        c = k("cancel")
        who = c["who"]
        hub.count("caller_cancel")
        t1 = loop.create_task(attempt("cancelled", 0.0, False, None if who == "both" else who))
        await asyncio.sleep(c["at"])
        t1.cancel()
        try:
            await t1
        except asyncio.CancelledError:
            pass
        await asyncio.sleep(0)
        for name, dev in (("resp", resp), ("supp", supp)):
            if dev._bind_context.is_binding:
                ctx.violate("C20", "still_binding", f"{name}:after_cancel", f"the caller cancelled the {name}'s attempt after {c['at']} s; one "
                            f"loop turn later the device is still binding: {dev._bind_context!r}")
        await asyncio.sleep(c["retry_gap"])
        faults_on[0] = False
        wire.clear()
        first = "resp" if who in ("resp", "both") else "supp"  # the side that retries at once; its peer turns up peer_delay later
        res = await attempt("retry", c["peer_delay"], first == "supp", None)
        # the retry is loss-free: if the peer turned up within the waiting side's stated wait, both must succeed
        # (a supplicant sends its offer once: a respondent that only starts listening afterwards cannot have heard it)
        # (a frame of the cancelled attempt may still go out at the instant of the cancel -- KF1's mechanism --: when both sides
        #  were cancelled the retry can be answered by it, so only single-sided cancels are judged for success)
        in_time = who != "both" and ((first == "resp" and c["peer_delay"] <= 4.0) or c["peer_delay"] == 0.0)
        judge("retry right after a cancelled attempt", res, in_time)
        ctx.probe("cancel_retry_judged_strictly" if in_time else "cancel_retry_peer_too_late")
        await asyncio.sleep(6.0)
        cleanup("retry after cancel")

    def judge(tag: str, res: dict, strict: bool) -> bool:
        """-> both sides succeeded"""
        ok = True
        for name, bound in (("resp", 25.0), ("supp", 50.0)):
            if name not in res:
                continue
            st, val, dur = res[name]
            ctx.ab(f"{tag}{name[0]}{st[0]}")
            if st == "hang":
                ctx.violate("C20", "never_ends", f"{name}", f"{tag}: the {name}'s attempt had not ended {dur:.1f} s after it started "
                            f"(its stated waits add up to < {bound} s)")
                ok = False
            elif st == "exc":
                ok = False
                if isinstance(val, asyncio.CancelledError) or not isinstance(val, BIND_ERRORS):
                    ctx.violate("C20", "wrong_exception", f"{name}:{exc_sig(val)}", f"{tag}: the {name}'s attempt ended with "
                                f"{type(val).__name__}({str(val)[:200]}), which is not a binding error")
                elif strict:
                    ctx.violate("C20", "failed_without_loss", f"{name}:{type(val).__name__}", f"{tag}: nothing was lost (repeats, echoes, "
                                f"unrelated traffic only) but the {name} failed: {type(val).__name__}({str(val)[:300]})")
                if dur > bound:
                    ctx.violate("C20", "ends_late", name, f"{tag}: the {name}'s attempt took {dur:.1f} s to fail (bound {bound} s)")
            elif dur > bound:
                ctx.violate("C20", "ends_late", name, f"{tag}: the {name}'s attempt took {dur:.1f} s (bound {bound} s)")
        # whatever else is on the air, the packets an end reports as the ones *it* sent are its own (its offer and confirm for the
        # supplicant, its accept for the respondent) -- a third party's look-alike heard while the own echo is late is not
        for name, dev, idxs in (("supp", supp, (0, 2)), ("resp", resp, (1,))):
            if name in res and res[name][0] == "ok":
                tup = res[name][1]
                for i in idxs:
                    if i < len(tup) and tup[i] is not None and str(tup[i])[7:16] != dev.id:
                        ctx.violate("C20", "not_its_own_packet", f"{name}:{i}", f"{tag}: the {name} ({dev.id}) reports {str(tup[i])!r} as the "
                                    f"packet {i} it sent")
        if ok and "resp" in res and "supp" in res:
            tr, ts_ = res["resp"][1], res["supp"][1]
            n = 4 if len(pk) > 3 else 3
            a = [str(p) if p is not None else None for p in tr[:n]]
            b = [str(p) if p is not None else None for p in ts_[:n]]
            if a != b:
                if strict:
                    ctx.violate("C20", "tuples_differ", "", f"{tag}: respondent reports {a}, supplicant reports {b}")
            else:
                on_wire = [w[2] for w in wire] + on_air
                for i, fr in enumerate(a):
                    if fr is not None and fr not in on_wire:
                        ctx.violate("C20", "tuple_not_on_wire", str(i), f"{tag}: both ends report {fr!r} as packet {i} of the handshake but "
                                    f"it was never transmitted; wire={on_wire[:8]}")
                if strict and a != [p for p in pk[:n]]:
                    ctx.probe("flow_differs_from_the_test_suite's_expected_frames")
        return ok

    def cleanup(tag: str) -> None:
        for name, dev in (("resp", resp), ("supp", supp)):
            if dev._bind_context.is_binding:
                ctx.violate("C20", "still_binding", name, f"{tag}: after its attempt ended the {name} is still binding: "
                            f"{dev._bind_context!r}")
        for e in ctx.loop_excs[n_exc[0]:]:
            ctx.violate("C20", "loop_exception", e["sig"], f"{tag}: the event loop's exception handler got {e['type']}: {e['text'][:200]} "
                        f"({e['message'][:100]})")
        n_exc[0] = len(ctx.loop_excs)

    n_exc = [0]
    mode = k("mode")
    if mode == "cancel_retry":
        await cancel_retry()
        await gwy_r.stop()
        await gwy_s.stop()
        await asyncio.sleep(0.1)
        gc.collect()
        for e in ctx.loop_excs[n_exc[0]:]:
            ctx.violate("C20", "loop_exception", e["sig"], f"teardown: the event loop's exception handler got {e['type']}: {e['text'][:200]}")
        ctx.nontrivial = True
        ctx.ab(f"{k('flow')}|cancel_retry|{k('cancel')}")
        ctx.sample = {"flow": k("flow"), "mode": mode, "cancel": k("cancel")}
        return
    only = {"resp_only": "resp", "supp_only": "supp"}.get(mode)
    if only:
        lossy[0] = True
    res1 = await attempt("first", k("start_gap", 0.0), bool(k("supp_first")), only)
    if k("start_gap", 0.0) >= 4.9 or k("supp_first") or any(o["op"] == "stall" and o["dur"] >= 1.0 for o in plan.ops):
        strict = False  # the other side may legitimately have given up before its peer started / the host froze through a wait
    else:
        strict = not lossy[0] and judged_success[0]
    both = judge("first attempt", res1, strict)
    ctx.probe("first_attempt_bound" if both and "resp" in res1 and "supp" in res1 else "first_attempt_failed")
    if strict:
        ctx.probe("judged_strictly_(nothing_lost)")
    await asyncio.sleep(6.0)  # let every wait timer of the attempt mature
    cleanup("first attempt")
    # a new attempt can start, and with the faults off it succeeds
    faults_on[0] = False
    for h in third_handles:  # (a stall may have kept one back until now)
        h.cancel()
    loop.stalls.clear()
    await asyncio.sleep(0.2)
    wire.clear()
    res2 = await attempt("second", 0.0, False, None)
    if not judge("second attempt (faults off)", res2, True):
        pass
    await asyncio.sleep(6.0)
    cleanup("second attempt")
    await gwy_r.stop()
    await gwy_s.stop()
    await asyncio.sleep(0.1)
    gc.collect()
    for e in ctx.loop_excs[n_exc[0]:]:
        ctx.violate("C20", "loop_exception", e["sig"], f"teardown: the event loop's exception handler got {e['type']}: {e['text'][:200]}")
    ctx.nontrivial = not k("fault_free")
    ctx.ab(f"{k('flow')}|{mode}")
    ctx.sample = {"flow": k("flow"), "mode": mode, "start_gap": k("start_gap"), "first": {n: (v[0], round(v[2], 2)) for n, v in res1.items()},
                  "second": {n: (v[0], round(v[2], 2)) for n, v in res2.items()}, "wire_frames_second": len(wire)}


# ---------------------------------------------------------------------------------------------------------------
# one side scripted: a real RF device (3x repeats with 20-60 ms gaps, its own latencies, an Orcon-style offer to 63:262142)
# ---------------------------------------------------------------------------------------------------------------

def generate_scripted(plan) -> None:
    r = plan.rng("gen")
    k = plan.d["knobs"]
    k["drift"] = 0.0
    k["min_gap"] = 0.05
    k["flow"] = r.choice(sorted(FLOWS))
    k["real"] = r.choice(["resp", "supp"])
    k["fault_free"] = r.random() < 0.15
    ff = k["fault_free"]
    k["tie_rate"] = 0.0 if ff else r.choice([0.0, 0.5])
    k["split_rate"] = 0.0
    k["offer_to_all"] = (not ff) and k["real"] == "resp" and r.random() < 0.4  # dst = 63:262142, as Orcon remotes do
    rep = (lambda: 1) if ff else (lambda: r.choice([1, 2, 3, 3]))
    gap = (lambda: 0.03) if ff else (lambda: r.choice([0.0, 0.02, 0.04, 0.06, 0.3]))
    lat = (lambda: 0.05) if ff else (lambda: r.choice([0.015, 0.02, 0.05, 0.3, 0.79, 0.81, 1.5, 2.9, 2.99, 3.05, 4.9, 5.05, 5.2]))
    k["script"] = {ph: {"n": rep(), "gap": gap(), "lat": lat(), "lost": (not ff) and r.random() < 0.12}
                   for ph in ("offer", "accept", "confirm", "addenda")}
    k["late_offer_repeat"] = (not ff) and r.random() < 0.4  # the 2nd/3rd copy of the offer arrives after our accept
    # the gateway's own first transmissions of its first frame (accept / offer) get no echo, so it re-transmits; the scripted
    # device may have missed the first copies too and answers the n-th one
    k["echo_lost_first"] = 0 if ff else r.choice([0, 0, 0, 1, 2, 3])
    k["heard_nth"] = 1 if ff else r.choice([1, 1, 1, 2, 3])
    k["start_gap"] = r.choice([0.0, 0.05, 1.0, 4.9, 5.2])
    ops = plan.d["ops"]
    if not ff:
        for _ in range(r.choice([0, 0, 1, 2])):
            ops.append({"op": "third", "at": round(r.choice([0.0, 0.1, 0.5, 1.0, 3.0]) + r.random() * 0.05, 3),
                        "kind": r.choice(["accept_other", "confirm_other", "offer_late"])})


async def run_scripted(ctx) -> None:
    plan, loop, hub = ctx.plan, ctx.loop, ctx.hub
    k = plan.knob
    flow = FLOWS[k("flow")]
    pk = list(flow["pkts"])
    real = k("real")
    sc = {ph: dict(v) for ph, v in k("script").items()}  # (a copy: the second attempt resets it; the plan stays as drawn)
    late_repeat = [bool(k("late_offer_repeat"))]
    T.MIN_INTER_WRITE_GAP = k("min_gap", 0.05)
    T.serial_for_url = hub.serial_for_url
    ser = hub.add_port("/dev/simR", GID_R)
    known = {**flow["resp"], **flow["supp"], **{v: {} for v in THIRD.values()}}
    r_id, s_id = next(iter(flow["resp"])), next(iter(flow["supp"]))
    if real == "resp":  # the supplicant is a real RF device, not one of ours
        known[s_id] = {kk: v for kk, v in known[s_id].items() if kk != "faked"}
    cfg = {"disable_discovery": True, "disable_qos": False, "enforce_known_list": True}
    gwy = Gateway("/dev/simR", config=cfg, known_list={i: dict(v) for i, v in known.items()},
                  orphans_hvac=[r_id if real == "resp" else s_id])
    await gwy.start()
    await asyncio.sleep(0.5)
    dev = gwy.device_by_id[r_id if real == "resp" else s_id]
    ensure_fakeable(dev)
    if k("offer_to_all"):
        pk[0] = pk[0][:17] + "63:262142 --:------" + pk[0][36:]
    ratify = len(pk) > 3
    t0 = loop.time()
    air: list[str] = []          # everything the scripted device put on the air, in order
    wire: list[str] = []         # handshake frames our gateway transmitted
    lossy = [False]
    late = [False]
    n_exc = [0]

    t_first: dict[str, float] = {}   # when the first copy of a scripted frame is delivered
    tx_times: dict[str, list] = {}   # phase -> [(t, echo heard?)] of our gateway's transmissions
    t_call = [loop.time()]
    faults = [True]

    def echo_policy(ser_, frame, nth):
        line = frame.decode("latin-1")
        if " 1FC9 " not in line and " 10E0 " not in line:
            return [0.01]
        ph = phase_of(line)
        first = "accept" if real == "resp" else "offer"
        lost = faults[0] and ph == first and nth <= k("echo_lost_first", 0)
        tx_times.setdefault(ph, []).append((loop.time(), not lost))
        if lost:
            hub.count("echo_lost")
            return []
        return [0.01]

    hub.echo_policy = echo_policy

    def say(phase: str, frame: str, base_delay: float = 0.0) -> None:
        p = sc[phase]
        if p["lost"]:
            hub.count("rf_drop")
            lossy[0] = True
            return
        t_first.setdefault(phase, loop.time() + base_delay + p["lat"])
        air.append(frame)
        for i in range(p["n"]):
            hub.rx_line(ser, frame, base_delay + p["lat"] + i * p["gap"])
        if p["n"] > 1:
            hub.count("rf_dup")
        if p["lat"] > 0.7:
            hub.count("rf_delay")
            late[0] = True

    heard = {"offer": False, "accept": False, "confirm": False}

    def on_frame(ser_, frame, nth):
        line = frame.decode("latin-1")
        if " 1FC9 " not in line and " 10E0 " not in line:
            return
        wire.append(line)
        ph = phase_of(line)
        if real == "resp" and ph == "accept" and not heard["accept"] and nth >= (k("heard_nth", 1) if faults[0] else 1):
            heard["accept"] = True
            if late_repeat[0] and not sc["offer"]["lost"]:
                hub.rx_line(ser, pk[0], 0.03)  # a straggling copy of the offer
                hub.count("late_offer_repeat")
            say("confirm", pk[2])
            if ratify:
                say("addenda", pk[3], sc["confirm"]["lat"] + 0.06)
        elif real == "supp" and ph == "offer" and not heard["offer"] and nth >= (k("heard_nth", 1) if faults[0] else 1):
            heard["offer"] = True
            say("accept", pk[1])

    hub.on_frame = on_frame
    on_air3: list[str] = []

    def third(kind: str):
        c, t_, rm = THIRD["ctl"], THIRD["thm"], THIRD["rem"]
        fr = {"offer_late": f" I --- {rm} --:------ {rm} 1FC9 012 0022F1{0x96599C:06X}001FC9{0x96599C:06X}",
              "accept_other": f" W --- {c} {t_} --:------ 1FC9 006 002309{0x06368F:06X}",
              "confirm_other": f" I --- {t_} {c} --:------ 1FC9 006 002309{0x8BF591:06X}"}[kind]
        if kind == "offer_late" and real == "resp" and not heard["accept"]:
            lossy[0] = True  # a competing supplicant while we still listen for offers: either may win
        hub.count("third_party")
        on_air3.append(fr)
        hub.rx_line(ser, fr)

    handles = [loop.call_later(o["at"], third, o["kind"]) for o in plan.ops if o["op"] == "third"]
    acc = pk[1][46:]
    res: dict = {}

    async def attempt():
        ts = loop.time()
        try:
            if real == "resp":
                coro = dev._wait_for_binding_request(codes_of(acc, skip=()), idx=acc[:2], require_ratify=ratify)
                bound = 25.0
            else:
                oc = [c for c in codes_of(pk[0][46:]) if c != "10E0"]
                coro = dev._initiate_binding_process(oc, confirm_code=pk[2][48:52] or None, ratify_cmd=Command(pk[3]) if ratify else None)
                bound = 50.0
            out = await asyncio.wait_for(coro, bound + 30)
            return ("ok", out, loop.time() - ts, bound)
        except TimeoutError:
            return ("hang", None, loop.time() - ts, bound)
        except BaseException as err:  # noqa
            return ("exc", err, loop.time() - ts, bound)

    t_call[0] = loop.time()
    task = loop.create_task(attempt())
    if real == "resp":
        sg = k("start_gap", 0.0)
        if sg >= 4.9:
            late[0] = True
        loop.call_later(sg, say, "offer", pk[0])
    st, val, dur, bound = await task

    def done_at(ph):  # when our gateway's send of that phase completed: its first transmission whose echo came back
        return next((t + 0.01 for (t, ok) in tx_times.get(ph, []) if ok), None)

    EPS = 0.06
    if lossy[0]:
        strict = False
    elif real == "resp":  # offer within 5 s of the call; confirm within 3 s of the accept having been sent (and 5.1 s of the offer);
        tO, tC, tR = t_first.get("offer"), t_first.get("confirm"), t_first.get("addenda")   # addendum within 3 s of the confirm
        tD = done_at("accept")
        strict = bool(tO is not None and tO - t_call[0] < 5.0 - EPS and tD is not None and tC is not None
                      and tO + 0.02 < tC < min(tD + 3.0, tO + 5.1) - EPS
                      and (not ratify or (tR is not None and tC + 0.02 < tR < tC + 3.0 - EPS)))
    else:  # accept within 5 s of the offer having been sent (and 5.1 s of the call)
        tA, tD = t_first.get("accept"), done_at("offer")
        strict = bool(tA is not None and tD is not None and tD < tA < min(tD + 5.0, t_call[0] + 5.1) - EPS)
    if strict and (late[0] or k("echo_lost_first") or k("heard_nth", 1) > 1):
        ctx.probe("judged_strictly_although_late_or_retransmitted")
    name = real
    ctx.ab(f"{real}:{st}:{'strict' if strict else 'lossy'}")
    ctx.ab("|".join(f"{ph[:2]}{v['n']}{'L' if v['lost'] else ''}@{v['lat']}" for ph, v in sorted(k("script").items())))
    if st == "hang":
        ctx.violate("C20", "never_ends", name, f"scripted peer: the {name}'s attempt had not ended after {dur:.1f} s")
    elif st == "exc":
        if isinstance(val, asyncio.CancelledError) or not isinstance(val, BIND_ERRORS):
            ctx.violate("C20", "wrong_exception", f"{name}:{exc_sig(val)}", f"scripted peer: the {name}'s attempt ended with "
                        f"{type(val).__name__}({str(val)[:200]}), which is not a binding error")
        elif strict:
            ctx.violate("C20", "failed_without_loss", f"{name}:{type(val).__name__}", f"scripted peer ({sc}): nothing was lost or late but the "
                        f"{name} failed: {type(val).__name__}({str(val)[:300]})")
        if dur > bound:
            ctx.violate("C20", "ends_late", name, f"scripted peer: the {name}'s attempt took {dur:.1f} s to fail (bound {bound} s)")
    else:
        if dur > bound:
            ctx.violate("C20", "ends_late", name, f"scripted peer: the {name}'s attempt took {dur:.1f} s (bound {bound} s)")
        got = [str(p) if p is not None else None for p in val[:4 if ratify else 3]]
        if real == "resp":
            want = [pk[0], next((w for w in wire if phase_of(w) == "accept"), None), pk[2]] + ([pk[3]] if ratify else [])
        else:
            want = [next((w for w in wire if phase_of(w) == "offer"), None), pk[1],
                    next((w for w in wire if phase_of(w) == "confirm"), None)] + ([next((w for w in wire if phase_of(w) == "addenda"), None)] if ratify else [])
        if got != want and not on_air3:
            i = next(i for i in range(len(want)) if i >= len(got) or got[i] != want[i])
            ctx.violate("C20", "wrong_tuple", f"{name}:{i}", f"scripted peer: the {name} reports {got} but the handshake on the air was {want} "
                        f"(scripted device sent {air}; gateway sent {wire})")
        elif got != want:
            ctx.probe("tuple_differs_with_third_party_traffic_(not_judged)")
        ctx.probe("scripted_bound")
    await asyncio.sleep(6.0)
    if dev._bind_context.is_binding:
        ctx.violate("C20", "still_binding", name, f"scripted peer: after its attempt ended the {name} is still binding: {dev._bind_context!r}")
    for e in ctx.loop_excs[n_exc[0]:]:
        ctx.violate("C20", "loop_exception", e["sig"], f"scripted peer: the event loop's exception handler got {e['type']}: {e['text'][:200]} "
                    f"({e['message'][:100]})")
    n_exc[0] = len(ctx.loop_excs)
    # a second attempt, clean
    for h in handles:
        h.cancel()
    for ph in sc:
        sc[ph].update({"n": 1, "gap": 0.0, "lat": 0.05, "lost": False})
    heard.update({"offer": False, "accept": False, "confirm": False})
    faults[0] = False
    t_first.clear()
    tx_times.clear()
    wire.clear()
    air.clear()
    on_air3.clear()
    late_repeat[0] = False
    task = loop.create_task(attempt())
    if real == "resp":
        loop.call_later(0.05, say, "offer", pk[0])
    st, val, dur, bound = await task
    if st != "ok":
        ctx.violate("C20", "retry_failed", f"{name}:{st}", f"scripted peer: a second, fault-free attempt by the {name} ended with {st} "
                    f"{type(val).__name__ if val is not None else ''}({str(val)[:300]})")
    await asyncio.sleep(6.0)
    if dev._bind_context.is_binding:
        ctx.violate("C20", "still_binding", name, f"scripted peer: after the second attempt the {name} is still binding")
    await gwy.stop()
    await asyncio.sleep(0.1)
    gc.collect()
    for e in ctx.loop_excs[n_exc[0]:]:
        ctx.violate("C20", "loop_exception", e["sig"], f"scripted peer, second attempt/teardown: {e['type']}: {e['text'][:200]}")
    ctx.nontrivial = not k("fault_free")
    ctx.ab(f"{k('flow')}|{k('offer_to_all')}|{k('late_offer_repeat')}")
    ctx.sample = {"scenario": "scripted", "flow": k("flow"), "real_side": real, "script": k("script"), "offer_to_63": k("offer_to_all")}


def on_hang(ctx, where: str, pending: list[str]) -> None:
    ctx.violate("C20", "hang", where, f"event loop ran dry at {where}; pending={pending}")


def on_wedge(ctx, desc: str) -> None:
    ctx.violate("C20", "wedged", desc.split("(")[0], desc)
