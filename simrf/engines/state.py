"""Engine `state`: packet *histories* against a live Gateway on FakeSerial, with operations interleaved.

Scenarios
  views   (C13): every public view after any history; get_state / _restore_cached_packets (also cancelled
                 mid-way, called concurrently, fed a damaged snapshot) leave the engine running; foreign
                 systems never stop the tracking of the known one
  schema  (C15): gwy.schema is accepted by the library's validator, re-loads into a fresh Gateway with the
                 same topology, the entity graph is consistent, and a device never moves to another parent
                 without the inconsistency being reported
  restore (C16): snapshot -> crash -> fresh Gateway -> snapshot is a fixpoint (see restore_run)
Histories are built from the corpus (real logs) by windowing, deletion, duplication, neighbour swaps, splicing of
a second system and field mutation within the library's payload regexes (biased to extremes), see build_history.
All oracles run in every scenario; a violation is filed under the property it belongs to.
"""
from __future__ import annotations

import asyncio
import gc
import io
import os
import logging
import re

from .. import clock, gen, world  # noqa: F401
from ..runner import exc_sig

import ramses_tx.transport as T
from ramses_rf import Gateway
from ramses_rf import exceptions as rexc
from ramses_rf.helpers import shrink
from ramses_rf.schemas import SCH_GLOBAL_SCHEMAS
from ramses_tx import Command, Priority
from ramses_tx.ramses import CODES_SCHEMA

GID = "18:006402"
PROBE_TRV = "04:199991"
PROBE_DST = "13:199992"
FRAME_RE = re.compile(r"^(\.\.\.|\d{3}) ( I|RQ|RP| W) ")

_hist_files = None


def hist_files() -> list[tuple[str, list[tuple[str, str]], int]]:
    """[(relpath, [(dtm, frame)], weight)] for corpus files with >= 8 frames."""
    global _hist_files
    if _hist_files is None:
        out = []
        for rel, rows in sorted(gen.corpus()["files"].items()):
            frames = []
            for dtm, rest in rows:
                body = rest.split("#")[0].split("<")[0].split("*")[0].rstrip()
                if FRAME_RE.match(body) and len(body) > 50:
                    frames.append((dtm, body[4:]))
            if len(frames) < 8:
                continue
            w = 1
            if "/systems/" in rel:
                w = 8
            elif "eavesdrop_schema" in rel or "schemas/log_files" in rel:
                w = 4
            elif "/devices/" in rel or "schedules" in rel or "faultlog" in rel:
                w = 2
            out.append((rel, frames, w))
        _hist_files = out
    return _hist_files


def _pick_file(r):
    fs = hist_files()
    tot = sum(w for _, _, w in fs)
    x = r.random() * tot
    for f in fs:
        x -= f[2]
        if x <= 0:
            return f
    return fs[-1]


def _secs(dtm: str) -> float:
    import datetime as _dt

    try:
        return _dt.datetime.fromisoformat(dtm.replace(" ", "T")).timestamp()
    except ValueError:
        return 0.0


ZONE_CODES = ("000C", "3150", "12B0", "2309", "30C9", "000A", "2349", "0004", "0008", "0009", "1FC9", "22C9")


def _window(r, frames, lo, hi):
    n = len(frames)
    if n <= hi:
        return list(frames)
    m = r.randrange(lo, hi + 1)
    i = r.randrange(0, n - m + 1)
    return frames[i:i + m]


def targeted(frame: str, r, roles: dict | None = None) -> str | None:
    """Extreme-but-legal edits the statement names: zero/max countdowns, sentinels, max indexes, re-zoning.
    roles: device ids the history itself names in a system-level role (appliance control, DHW sensor / valves)."""
    code, verb = frame[37:41], frame[:2]
    ln = frame[42:45]
    pl = frame[46:]
    if code == "1F09" and len(pl) == 6 and verb == " I" and frame[7:10] == "01:" and r.random() < 0.4:
        # the same countdown as the controller's reply to a request (RP|00) or its after-binding write (W|F8), both documented shapes
        cd = r.choice(["0000", "0000", "0001", "FFFF", "0730"])
        if r.random() < 0.6:
            return f"RP --- {frame[7:16]} 18:000730 --:------ 1F09 003 00{cd}"
        return f" W --- {frame[7:16]} {r.choice(['04:111111', '22:111117', '34:111113'])} --:------ 1F09 003 F8{cd}"
    if code == "1F09" and len(pl) == 6:
        return f"{frame[:46]}{pl[:2]}{r.choice(['0000', '0001', 'FFFF', '0002', '7FFF'])}"
    if code in ZONE_CODES and len(pl) >= 2 and pl[:2] not in ("FC", "FA", "F9", "FF") and not (code == "000C" and r.random() < 0.5):
        z = r.choice(["00", "01", "07", "0B", "0C", "0F", "10", "FA", "FC", f"{r.randrange(16):02X}"])
        q = z + pl[2:]
        rx = (CODES_SCHEMA.get(code) or {}).get(verb)
        if rx is None or re.match(rx, q):
            return f"{frame[:46]}{q}"
    if code == "000C" and len(pl) >= 12:  # another device id in the same role
        d = r.choice(["04:111111", "13:111112", "34:111113", "01:145038", "07:111114", "10:111115", "04:111116", frame[7:16], frame[7:16]])
        if pl[2:4] == "04" and r.random() < 0.6:
            d = frame[7:16]  # the controller itself as the zone's sensor (legal for one zone)
        elif roles and r.random() < 0.5:  # a device that already has a system-level role is named in another role / zone
            d = r.choice(sorted(roles))
        t, n = d.split(":")
        q = pl[:6] + f"{(int(t) << 18) + int(n):06X}" + pl[12:]
        return f"{frame[:46]}{q}"
    if code in ("30C9", "2309", "12B0", "3150") and len(pl) >= 6:
        return f"{frame[:46]}{pl[:2]}{r.choice(['7FFF', '7EFF', '0000', 'FFFF', '8000', '7F'])}"[:46 + len(pl)]
    _ = ln
    return None


def build_history(r, k: dict, *, n_lo=30, n_hi=220) -> list[dict]:
    """-> [{"op":"rx","f":frame,"gap":s}]"""
    rel, frames, _w = _pick_file(r)
    k["base"] = rel
    rows = [(d, f, 0) for d, f in _window(r, frames, n_lo, n_hi)]
    if r.random() < k.get("p_splice", 0.4):
        rel2, frames2, _ = _pick_file(r)
        k["splice"] = rel2
        rows2 = [(d, f, 1) for d, f in _window(r, frames2, 8, 100)]
        mode = r.choice(["interleave", "append", "prepend"])
        if mode == "append":
            rows = rows + rows2
        elif mode == "prepend":
            rows = rows2 + rows
        else:
            out, i, j = [], 0, 0
            while i < len(rows) or j < len(rows2):
                if j >= len(rows2) or (i < len(rows) and r.random() < len(rows) / (len(rows) + len(rows2))):
                    out.append(rows[i])
                    i += 1
                else:
                    out.append(rows2[j])
                    j += 1
            rows = out
    p_del, p_dup, p_swap, p_mut, p_tgt = (k.get(x, 0.0) for x in ("p_del", "p_dup", "p_swap", "p_mut", "p_tgt"))
    seq: list[tuple[str, str, int]] = []
    cnt = k.setdefault("hist_counts", {})
    if k.get("splice"):
        cnt["hist_splice"] = cnt.get("hist_splice", 0) + 1

    def c(name):
        cnt[name] = cnt.get(name, 0) + 1

    roles: dict[str, str] = {}  # devices the history names as appliance control / DHW sensor / DHW valves (000C roles 0F, 0D, 0E)
    for _d, f, _s in rows:
        if f[37:41] == "000C" and f[:2] == "RP" and len(f) >= 58 and f[48:50] in ("0D", "0E", "0F") and f[52:58] != "FFFFFF":
            try:
                v = int(f[52:58], 16)
                roles[f"{v >> 18:02d}:{v & 0x3FFFF:06d}"] = f[48:50]
            except ValueError:
                pass
    p_alien = k.get("p_alien", 0.0)
    p_nb = k.get("p_neighbour", 0.0)
    for dtm, f, src in rows:
        if p_alien and r.random() < p_alien:
            # a neighbour's kit of another make: a structurally valid frame with a code this library has never heard of, arriving
            # in the same read as the next frame ("glue")
            while True:
                code = f"{r.randrange(0x0001, 0x7FFF):04X}"
                if code not in CODES_SCHEMA:
                    break
            dev = f"{r.choice(['32', '37', '29', '20'])}:{r.randrange(199000, 199999):06d}"
            n = r.choice([1, 2, 3, 8, 22])
            q = "".join(f"{r.randrange(256):02X}" for _ in range(n))
            shape = r.choice([f" I --- {dev} --:------ {dev}", f" I --- {dev} 63:262142 --:------", f"RP --- {dev} 32:199998 --:------"])
            seq.append((dtm, f"{shape} {code} {n:03d} {q}", 2))
            c("hist_alien_code")
        if r.random() < p_del:
            c("hist_delete")
            continue
        if p_nb and not src and f[:2] == " I" and f[7:16] == f[27:36] and f[37:41] in ("000A", "22C9", "2309", "30C9", "3150", "0009") \
                and f[7:9] in ("01", "02") and r.random() < p_nb:
            # a neighbour's controller / UFC broadcasts the same kind of array just before ours (other values)
            nb = f"{f[7:9]}:199990"
            code = f[37:41]
            if code == "000A":  # its zones 00-07, other limits than ours
                q = "".join(f"{z:02X}10{0x01F4 + 10 * z:04X}{0x0898 + 10 * z:04X}" for z in range(8))
            elif code == "22C9":
                q = "".join(f"{z:02X}{0x0708 + 10 * z:04X}{0x0A28 + 10 * z:04X}01" for z in range(4))
            elif code in ("2309", "30C9"):
                q = "".join(f"{z:02X}{0x0700 + 7 * z:04X}" for z in range(8))
            else:
                q = f[46:]
            seq.append((dtm, f"{f[:7]}{nb} --:------ {nb} {code} {len(q) // 2:03d} {q}", 1))
            c("hist_neighbour_array")
        if r.random() < p_tgt:
            g = targeted(f, r, roles)
            if g is not None:
                if g[37:41] in ("000C", "0005") or (g[37:41] in ZONE_CODES and g[46:48] != f[46:48]):
                    c("hist_topology_edit")  # the edit changes what the history says about who is where
                if g[37:41] == "000C" and g != f and r.random() < 0.5:
                    seq.append((dtm, f, src))  # the controller first says the one thing, then the other (both are in the history)
                    c("hist_contradicting_pair")
                f = g
                c("hist_targeted_extreme")
        elif r.random() < p_mut:
            g = gen.mutate_field("045 " + f, r, CODES_SCHEMA)
            if g is not None:
                if f[37:41] in ("000C", "0005"):
                    c("hist_topology_edit")
                f = g[4:]
                c("hist_field_mutation")
        seq.append((dtm, f, src))
        if r.random() < p_dup:
            seq.append((dtm, f, src))
            c("hist_duplicate")
    i = 0
    while i + 1 < len(seq):
        if r.random() < p_swap:
            seq[i], seq[i + 1] = seq[i + 1], seq[i]
            c("hist_swap")
            i += 1
        i += 1
    ops = []
    prev = None
    tm = k.get("time_mode", "fast")
    for dtm, f, src in seq:
        gap = 0.004
        if tm == "log":
            s = _secs(dtm)
            if prev is not None and s > prev:
                gap = min(s - prev, k.get("gap_cap", 30.0))
            prev = s
            gap = max(gap, 0.004)
        ops.append({"op": "rx", "f": f, "gap": round(gap, 3)} | ({"src": 1} if src else {}) | ({"glue": 1} if src == 2 else {}))
    return ops


ZCLASS = ["radiator_valve", "zone_valve", "electric_heat", "mixing_valve", "underfloor_heating"]
ACT_BY_CLASS = {"radiator_valve": ["04", "00"], "zone_valve": ["13"], "electric_heat": ["13"], "mixing_valve": ["13"], "underfloor_heating": []}


def gen_schema(r, max_zones: int) -> dict:
    """A configuration schema the validator may accept: 1-3 controllers, 0-12 zones of any class with any sensor / actuator
    sets, DHW parts, UFH controllers with circuit maps, appliance control, orphans.  One device appears in one place only."""
    used: set[str] = set()

    def dev(t: str) -> str:
        while True:
            d = f"{t}:{r.randrange(1000, 260000):06d}"
            if d not in used:
                used.add(d)
                return d

    out: dict = {}
    ctls = [dev(r.choice(["01", "01", "01", "23"])) for _ in range(r.choice([1, 1, 1, 2, 3]))]
    for ci, ctl in enumerate(ctls):
        tcs: dict = {}
        if r.random() < 0.5:
            tcs["system"] = {"appliance_control": dev(r.choice(["10", "13"]))}
        n = r.choice([0, 1, 2, 4, 8, 12])
        zones = {}
        ctl_is_sensor = False
        for zi in sorted(r.sample(range(min(12, max_zones)), min(n, min(12, max_zones)))):
            cls = r.choice(ZCLASS + [None])
            z: dict = {}
            if cls is not None and r.random() < 0.8:
                z["class"] = cls
            st = r.choice(["01", "03", "04", "12", "22", "34", "00", None, None])
            if st == "01":
                if not ctl_is_sensor:
                    z["sensor"] = ctl
                    ctl_is_sensor = True
            elif st is not None:
                z["sensor"] = dev(st)
            acts = [dev(r.choice(ACT_BY_CLASS[cls])) for _ in range(r.choice([0, 1, 1, 2, 4]))] if cls and ACT_BY_CLASS[cls] else []
            if acts and cls == "radiator_valve" and "sensor" in z and z["sensor"][:2] == "04" and r.random() < 0.3:
                acts[0] = z["sensor"]  # a TRV that is also the zone's sensor
            if acts:
                z["actuators"] = acts
            zones[f"{zi:02X}"] = z
        if zones:
            tcs["zones"] = zones
        if r.random() < 0.4:
            d = {}
            if r.random() < 0.8:
                d["sensor"] = dev("07")
            if r.random() < 0.6:
                d["hotwater_valve"] = dev("13")
            if r.random() < 0.4:
                d["heating_valve"] = dev("13")
            if d:
                tcs["stored_hotwater"] = d
        if r.random() < 0.25:
            tcs["underfloor_heating"] = {dev("02"): {"circuits": {f"{c:02X}": {"zone_idx": f"{r.randrange(8):02X}"} for c in
                                                                  sorted(r.sample(range(8), r.choice([0, 1, 3])))}}
                                         for _ in range(r.choice([1, 1, 2]))}
        if r.random() < 0.2 and "underfloor_heating" not in tcs:
            tcs["orphans"] = [dev("02")]  # (the only kind of device a system keeps without a role)
        out[ctl] = tcs
    out["main_tcs"] = r.choice(ctls)
    if r.random() < 0.4:
        out["orphans_heat"] = sorted(dev(r.choice(["04", "13", "34", "10", "07"])) for _ in range(r.choice([1, 3])))
    if r.random() < 0.3:
        out["orphans_hvac"] = sorted(dev(r.choice(["32", "37", "29", "20"])) for _ in range(r.choice([1, 2])))
    return out


def generate(plan) -> None:
    r = plan.rng("gen")
    k = plan.d["knobs"]
    sc = plan.d["scenario"]
    if sc == "fresh":
        from . import state_fresh

        return state_fresh.generate(plan)
    k["drift"] = 0.0
    k["min_gap"] = 0.25
    ff = r.random() < 0.15
    k["fault_free"] = ff  # = an unmodified window of one real log
    k["eavesdrop"] = r.random() < (0.6 if sc == "schema" else 0.4)
    k["max_zones"] = r.choice([1, 2, 4, 8, 12, 12, 12, 16])
    k["read_only"] = bool(sc == "views" and r.random() < 0.15)  # the 'disable_sending' configuration
    k["via_file"] = bool(sc == "views" and not k["read_only"] and r.random() < 0.15)  # the history is a packet log being replayed
    # ... of which a leading part was saved state, given to start(cached_packets=) before the first line of the log is read
    k["preload"] = r.choice([0.0, 0.0, 0.5, 1.0, 1.0]) if k["via_file"] else 0.0
    k["time_mode"] = r.choice(["fast", "fast", "log"])
    k["gap_cap"] = r.choice([1.0, 30.0, 400.0])
    if ff:
        k.update({"p_del": 0.0, "p_dup": 0.0, "p_swap": 0.0, "p_mut": 0.0, "p_tgt": 0.0, "p_splice": 0.0})
    else:
        k.update({"p_del": r.choice([0.0, 0.05, 0.3]), "p_dup": r.choice([0.0, 0.05, 0.2]), "p_swap": r.choice([0.0, 0.1, 0.3]),
                  "p_mut": r.choice([0.0, 0.05, 0.25]), "p_tgt": r.choice([0.0, 0.03, 0.15]), "p_splice": 0.45})
    k["p_alien"] = 0.0 if ff else r.choice([0.0, 0.0, 0.02, 0.08])
    if sc == "restore":
        from . import state_restore

        state_restore.generate(plan, build_history)
        # (own stream) an enforced known_list: every device of the history, plus a class-less 18: entry that is not the dongle in use
        # (a spare stick the user once listed); the dongle itself is learned from its signature
        if plan.rng("gen/kl").random() < 0.15 and not k["eavesdrop"]:
            ids = set()
            for o in plan.d["ops"]:
                if o["op"] == "rx":
                    f = o["f"]
                    ids |= {x for x in (f[7:16], f[17:26], f[27:36]) if x[2:3] == ":" and x[:2] not in ("--", "63") and x != "18:000730"}
            k["known_list"] = sorted(ids - {GID}) + ["18:199998"]
        return
    if sc == "config":
        k["config_schema"] = gen_schema(r, k["max_zones"])
        k["eavesdrop"] = r.random() < 0.3
    # non-interference twin: a second gateway hears the same history minus the spliced-in system (eavesdropping off only)
    twin_wanted = bool(sc == "views" and (not k["eavesdrop"] or os.environ.get("SIMRF_TWIN_EAVES")) and not ff and not k["via_file"]
                       and r.random() < 0.8)
    k["p_neighbour"] = r.choice([0.0, 0.3, 1.0]) if (twin_wanted and not k["eavesdrop"]) else 0.0
    ops = build_history(r, k)
    n = len(ops)
    k["twin"] = bool(twin_wanted and any(o.get("src") for o in ops))
    extra: list[tuple[int, dict]] = []
    n_views = r.choice([1, 2, 4, 8])
    for _ in range(n_views):
        extra.append((r.randrange(n + 1), {"op": "views"}))
    n_state = r.choice([0, 1, 2, 4]) if sc == "views" else r.choice([0, 1])
    for _ in range(n_state):
        extra.append((r.randrange(n + 1), {"op": "state", "exp": r.random() < 0.5}))
    if n_state and sc == "views" and not k["twin"] and not k["via_file"]:
        for _ in range(r.choice([0, 1, 2])):
            extra.append((r.randrange(n // 3, n + 1), {"op": "restore", "k": r.randrange(8),
                                                      "how": r.choice(["plain", "plain", "cancel", "concurrent", "damaged", "twice"])}))
    for _ in range(r.choice([0, 0, 1, 2, 3])):
        extra.append((r.randrange(n + 1), {"op": "adv", "s": r.choice([30, 200, 400, 800, 3700, 7300, 90000, 200000]),
                                          "how": r.choice(["sleep", "jump"])}))
    n_sch = r.choice([1, 2, 4]) if sc in ("schema", "config") else r.choice([0, 1])
    for _ in range(n_sch):
        extra.append((r.randrange(n + 1), {"op": "schema", "reload": r.random() < 0.6}))
    extra.sort(key=lambda e: e[0])
    out: list[dict] = [{"op": "config_check", "pin": True}] if sc == "config" else []
    j = 0
    for i, o in enumerate(ops):
        while j < len(extra) and extra[j][0] <= i:
            out.append(extra[j][1])
            j += 1
        out.append(o)
    out.extend(e[1] for e in extra[j:])
    out.append({"op": "views", "pin": True})
    out.append({"op": "schema", "reload": True, "pin": True})
    plan.d["ops"] = out


# ---------------------------------------------------------------------------------------------------------
# views
# ---------------------------------------------------------------------------------------------------------

def entities(gwy):
    """(label, object) for every entity with public views, in a deterministic order."""
    out = []
    for d in sorted(gwy.devices, key=lambda d: d.id):
        out.append((f"{type(d).__name__}", d))
    for tcs in gwy.systems:
        out.append((f"{type(tcs).__name__}", tcs))
        for z in sorted(getattr(tcs, "zones", []) or [], key=lambda z: z.idx):
            out.append((f"{type(z).__name__}", z))
        if getattr(tcs, "dhw", None):
            out.append((f"{type(tcs.dhw).__name__}", tcs.dhw))
    return out


def read_views(ctx, gwy, where: str) -> int:
    """Read every public view; file a C13 violation for each that raises. -> number of views read"""
    n = 0

    def rd(label, fn):
        nonlocal n
        n += 1
        try:
            return fn()
        except Exception as err:  # noqa
            ctx.violate("C13", "view_raised", f"{label}:{exc_sig(err)}",
                        f"{where}: reading {label} raised {type(err).__name__}: {str(err)[:300]}")
            return None

    for name in ("schema", "params", "status", "known_list", "_config"):
        rd(f"Gateway.{name}", lambda name=name: getattr(gwy, name))
    rd("Gateway.tcs", lambda: gwy.tcs)
    ents = rd("Gateway.systems", lambda: entities(gwy)) or []
    for label, obj in ents:
        for attr in ("schema", "params", "status", "traits"):
            if hasattr(type(obj), attr):
                rd(f"{label}.{attr}", lambda obj=obj, attr=attr: getattr(obj, attr))
    return n


# ---------------------------------------------------------------------------------------------------------
# schema oracles (C15)
# ---------------------------------------------------------------------------------------------------------

def topology(schema: dict) -> dict:
    """What the statement lists: controllers, zones (class, sensor, actuators), hot water, appliance control.
    Zones / controllers about which nothing is known are left out: shrink() -- the statement's own way of saving a schema --
    removes them before the library ever sees them again.  UFH circuits are reported but not compared (not in the list)."""
    out = {}
    for key, v in (schema or {}).items():
        if not isinstance(v, dict) or key in ("main_tcs",) or key.startswith("orphans"):
            continue
        zones = {}
        for z, c in (v.get("zones") or {}).items():
            c = c or {}
            ent = {"class": c.get("class"), "sensor": c.get("sensor"), "actuators": sorted(c.get("actuators") or [])}
            if ent["class"] or ent["sensor"] or ent["actuators"]:
                zones[z] = ent
        d = v.get("stored_hotwater") or {}
        ent = {"zones": zones, "dhw": {a: d.get(a) for a in ("sensor", "hotwater_valve", "heating_valve") if d.get(a)},
               "app": (v.get("system") or {}).get("appliance_control")}
        if ent["zones"] or ent["dhw"] or ent["app"]:
            out[key] = ent
    return out


def graph_check(ctx, gwy, where: str) -> dict:
    """Structural consistency; -> {device id: (ctl id, parent label, child_id)} for the move check."""
    place = {}
    max_zones = gwy.config.max_zones
    seen_sensor: dict[str, list[str]] = {}
    memb: dict[str, list[str]] = {}
    for tcs in gwy.systems:
        for z in getattr(tcs, "zones", []) or []:
            try:
                zi = int(z.idx, 16)
            except ValueError:
                zi = 999
            if zi >= max_zones:
                ctx.violate("C15", "zone_idx_out_of_range", "", f"{where}: zone {z.id} exists although max_zones={max_zones}")
            if tcs.zone_by_idx.get(z.idx) is not z:
                ctx.violate("C15", "graph", "zone_by_idx", f"{where}: {z.id} is in tcs.zones but zone_by_idx[{z.idx}] is another object")
            s = z.sensor
            if s is not None:
                seen_sensor.setdefault(s.id, []).append(z.id)
            for a in z.actuators:
                memb.setdefault(a.id, []).append(z.id)
                if a._parent is not z:
                    ctx.violate("C15", "graph", "actuator_parent", f"{where}: {a.id} is an actuator of {z.id} but its parent is "
                                f"{getattr(a._parent, 'id', None)}")
    for dev_id, zs in sorted(seen_sensor.items()):
        if len(set(zs)) > 1:
            ctx.violate("C15", "graph", "sensor_of_two_zones", f"{where}: {dev_id} is the sensor of {sorted(set(zs))}")
    for dev_id, zs in sorted(memb.items()):
        if len(set(zs)) > 1:
            ctx.violate("C15", "graph", "two_zones", f"{where}: {dev_id} is an actuator of {sorted(set(zs))}")
    for d in sorted(gwy.devices, key=lambda d: d.id):
        par = getattr(d, "_parent", None)
        ctl = getattr(d, "ctl", None)
        cid = getattr(d, "_child_id", None)
        if par is not None:
            place[d.id] = (getattr(ctl, "id", None), getattr(par, "id", repr(par)), cid)
            if hasattr(par, "childs") and d not in par.childs:
                ctx.violate("C15", "graph", "not_mutual", f"{where}: {d.id} has parent {getattr(par, 'id', par)} which does not list it as a child")
            pctl = getattr(par, "ctl", None)
            if ctl is not None and pctl is not None and pctl is not ctl and par is not ctl:
                ctx.violate("C15", "graph", "two_controllers", f"{where}: {d.id}.ctl={ctl.id} but its parent {par.id} belongs to {pctl.id}")
    return place


def schema_check(ctx, gwy, where: str) -> dict | None:
    try:
        raw = gwy.schema
    except Exception as err:  # noqa
        ctx.violate("C13", "view_raised", f"Gateway.schema:{exc_sig(err)}", f"{where}: gwy.schema raised {type(err).__name__}: {err}")
        return None
    try:
        small = shrink(raw)
        SCH_GLOBAL_SCHEMAS(small)
    except Exception as err:  # noqa
        msg = re.sub(r"\d\d:\d{6}", "ID", str(err))[:80]
        ctx.violate("C15", "schema_rejected", re.sub(r"[^A-Za-z_ ]", "", msg)[:60].strip().replace(" ", "_"),
                    f"{where}: the library's own validator rejects gwy.schema: {type(err).__name__}: {str(err)[:300]}; schema={str(small)[:3000]}")
        return None
    try:
        SCH_GLOBAL_SCHEMAS(raw)
    except Exception:  # noqa
        ctx.probe("raw_schema_rejected_(not_judged)")
    return small


async def reload_check(ctx, gwy, small: dict, where: str, want: dict | None = None) -> None:
    """Feed the schema back into a fresh Gateway: same controllers, zones, DHW, appliance control."""
    want = topology(gwy.schema) if want is None else want  # (a deferred check is given the topology of the instant `small` was read)
    g2 = None
    try:
        g2 = Gateway(None, input_file=io.TextIOWrapper(io.BytesIO(b"")), config={"max_zones": gwy.config.max_zones,
                                                               "enable_eavesdrop": False}, **small)
        await g2.start()
        await asyncio.sleep(0.01)
        got = topology(g2.schema)
    except Exception as err:  # noqa
        ctx.violate("C15", "reload_raised", exc_sig(err), f"{where}: a fresh Gateway(**gwy.schema) raised {type(err).__name__}: "
                    f"{str(err)[:300]}; schema={str(small)[:500]}")
        got = None
    finally:
        if g2 is not None:
            try:
                await g2.stop()
            except Exception:  # noqa
                pass
    if got is None:
        return
    ctx.probe("reloads")
    if got != want:
        diff = []
        for c in sorted(set(want) | set(got)):
            if want.get(c) != got.get(c):
                w, g = want.get(c) or {}, got.get(c) or {}
                for part in ("zones", "dhw", "app"):
                    if w.get(part) != g.get(part):
                        diff.append(f"{c}.{part}: saved={w.get(part)} reloaded={g.get(part)}")
        part = diff[0].split(":")[1].split(".")[-1] if diff else "controllers"
        ctx.violate("C15", "reload_differs", part, f"{where}: feeding gwy.schema back into a fresh gateway gives another topology: "
                    f"{'; '.join(diff)[:900]}")


# ---------------------------------------------------------------------------------------------------------
# the run
# ---------------------------------------------------------------------------------------------------------

class _Quiet:
    """stands in for ctx where results are not judged"""

    def violate(self, *a, **k) -> None:
        pass

    def probe(self, *a, **k) -> None:
        pass


class InconsistencyLog(logging.Handler):
    def __init__(self) -> None:
        super().__init__(level=logging.WARNING)
        self.n = 0

    def emit(self, record) -> None:
        try:
            s = record.getMessage()
        except Exception:  # noqa
            return
        if "Inconsistent" in s or "cant change" in s or " changed " in s:
            self.n += 1


async def start_gateway(ctx, k, **extra):
    hub = ctx.hub
    T.MIN_INTER_WRITE_GAP = k("min_gap", 1.0)
    T.serial_for_url = hub.serial_for_url
    ser = hub.ports.get("/dev/sim0") or hub.add_port("/dev/sim0", GID)
    cfg = {"disable_discovery": True, "enforce_known_list": False, "enable_eavesdrop": bool(k("eavesdrop")),
           "max_zones": k("max_zones", 12)}
    if k("read_only"):
        cfg["disable_sending"] = True
    if k("known_list"):
        cfg["enforce_known_list"] = True
        extra = {**extra, "known_list": {i: {} for i in k("known_list")}}
    gwy = Gateway("/dev/sim0", config=cfg, **extra)
    return gwy, ser


async def run(ctx) -> None:
    sc = ctx.plan.d["scenario"]
    if sc == "fresh":
        from . import state_fresh

        return await state_fresh.run(ctx)
    if sc == "restore":
        from . import state_restore

        return await state_restore.run(ctx)
    plan, loop, hub = ctx.plan, ctx.loop, ctx.hub
    k = plan.knob
    if k("via_file"):
        return await run_file(ctx)
    cfg_schema = k("config_schema")
    if cfg_schema:
        try:
            SCH_GLOBAL_SCHEMAS(cfg_schema)
        except Exception:  # noqa: the generator made something the validator refuses: nothing to check
            ctx.probe("generated_schema_refused_by_the_validator")
            cfg_schema = None
    try:
        gwy, ser = await start_gateway(ctx, k, **(cfg_schema or {}))
    except Exception as err:  # noqa
        ctx.violate("C15", "config_load_raised", exc_sig(err), f"Gateway(**schema) raised {type(err).__name__}: {str(err)[:300]} for a "
                    f"schema the validator accepts: {str(cfg_schema)[:1500]}")
        return
    inc = InconsistencyLog()
    lg = logging.getLogger("ramses_rf")
    lg.addHandler(inc)
    old_level = lg.level
    lg.setLevel(logging.WARNING)
    try:
        await gwy.start()
    except Exception as err:  # noqa
        if not cfg_schema:
            raise
        ctx.violate("C15", "config_load_raised", exc_sig(err), f"starting a gateway with a schema the validator accepts raised "
                    f"{type(err).__name__}: {str(err)[:300]}; schema={str(cfg_schema)[:1500]}")
        lg.removeHandler(inc)
        lg.setLevel(old_level)
        return
    twin = ser_t = None
    foreign: set[int] = set()
    if k("twin"):
        def ids_of(f):
            out = {x for x in (f[7:16], f[17:26], f[27:36]) if x[2:3] == ":" and x not in ("--:------", "63:262142", "18:000730")}
            if f[37:41] in ("000C", "1FC9"):  # these name further devices inside the payload (6-byte elements, id in the last 3)
                pl = f[46:]
                for i in range(0, len(pl) - 11, 12):
                    try:
                        v = int(pl[i + 6:i + 12], 16)
                    except ValueError:
                        continue
                    if v not in (0xFFFFFF, 0x7FFFFF):
                        out.add(f"{v >> 18:02d}:{v & 0x3FFFF:06d}")
                if f[37:41] == "000C" and len(pl) % 12:  # the short form: idx role id, 5 bytes per further element
                    for i in range(0, len(pl) - 9, 10):
                        try:
                            v = int(pl[i + 4:i + 10], 16)
                        except ValueError:
                            continue
                        out.add(f"{v >> 18:02d}:{v & 0x3FFFF:06d}")
            return out

        base_ids: set[str] = set()
        for o in plan.ops:
            if o["op"] == "rx" and not o.get("src"):
                base_ids |= ids_of(o["f"])
        spliced = {i: ids_of(o["f"]) for i, o in enumerate(plan.ops) if o["op"] == "rx" and o.get("src")}
        grew = True
        while grew:  # a spliced packet that names a device of the known history belongs to it, and so do the devices it names
            grew = False
            for i, ids in spliced.items():
                if ids & base_ids and not ids <= base_ids:
                    base_ids |= ids
                    grew = True
        foreign = {i for i, ids in spliced.items() if not (ids & base_ids)}
        if foreign:
            ser_t = hub.add_port("/dev/simT", GID)
            hub.cast_between_ports = False
            twin = Gateway("/dev/simT", config={"disable_discovery": True, "enforce_known_list": False, "enable_eavesdrop": bool(k("eavesdrop")),
                                               "max_zones": k("max_zones", 12)})
            await twin.start()
            ctx.probe("twin_runs")
    await asyncio.sleep(0.3)
    snaps: list[tuple[dict, dict]] = []
    probe_n = [0]
    n_rx = 0
    place: dict = {}
    roles_seen: dict = {}
    n_inc_seen = [0]
    dead = [False]

    def inconsistencies() -> int:
        return inc.n + sum(1 for e in ctx.loop_excs if "Inconsistent" in e["type"])

    async def alive(tag: str) -> bool:
        """still receiving, still able to send, not paused, flags as before; False = the engine is dead (stop the run:
        everything after that would only be a consequence)"""
        if gwy._engine_state is not None or gwy._protocol._msg_handler is None:
            ctx.violate("C13", "left_paused", tag, f"after {tag}: the engine is still paused (engine_state={gwy._engine_state!r:.100}, "
                        f"msg_handler={gwy._protocol._msg_handler!r:.60}): nothing is received or sent any more, and get_state()/"
                        f"restore now fail with RuntimeError")
            dead[0] = True
            return False
        probe_n[0] += 1
        temp = 1000 + probe_n[0]
        hub.rx_line(ser, f" I --- {PROBE_TRV} --:------ {PROBE_TRV} 30C9 003 00{temp:04X}")
        await asyncio.sleep(0.02)
        dev = gwy.device_by_id.get(PROBE_TRV)
        got = None
        try:
            got = dev.temperature if dev is not None else None
        except Exception:  # noqa
            pass
        if got != temp / 100:
            ctx.violate("C13", "not_receiving", tag, f"after {tag}: a packet delivered to the port is no longer handled "
                        f"(probe TRV temperature {got}, expected {temp / 100})")
            dead[0] = True
        if k("read_only"):
            return not dead[0]
        w0 = len(hub.writes)
        cmd = Command(f"RQ --- 18:000730 {PROBE_DST} --:------ 0016 002 00{probe_n[0] % 256:02X}")
        outcome = "ok"
        try:
            await asyncio.wait_for(gwy.async_send_cmd(cmd, wait_for_reply=False, timeout=20.0, max_retries=2,
                                                      priority=Priority.HIGH), 40)
        except Exception as err:  # noqa
            outcome = f"{type(err).__name__}: {err}"[:160]
        written = any(b" 0016 002 00" in d for (_t, _n, d) in hub.writes[w0:])
        if not written and len(hub.writes) == w0:  # refused at once (queue full of the library's own requests)? then the
            await asyncio.sleep(8.0)                # sender must at least be seen working on them
        if not written and len(hub.writes) > w0:
            ctx.probe("probe_cmd_queued_behind_the_library's_own_requests")  # the sender is alive and busy: not judged
        elif not written:
            ctx.violate("C13", "not_sending", tag, f"after {tag}: a command is no longer written to the port ({outcome})")
            dead[0] = True
        return not dead[0]

    async def do_state(o, where):
        flags0 = (gwy._disable_sending, gwy.config.disable_discovery)
        try:
            s = gwy.get_state(include_expired=bool(o.get("exp")))
            snaps.append(s)
            ctx.probe("snapshots")
        except Exception as err:  # noqa
            ctx.violate("C13", "view_raised", f"Gateway.get_state:{exc_sig(err)}", f"{where}: get_state() raised "
                        f"{type(err).__name__}: {str(err)[:300]}")
        if (gwy._disable_sending, gwy.config.disable_discovery) != flags0:
            ctx.violate("C13", "flags_changed", "get_state", f"{where}: (disable_sending, disable_discovery) was {flags0}, now "
                        f"{(gwy._disable_sending, gwy.config.disable_discovery)}")
        await alive("get_state")

    async def do_restore(o, where):
        if not snaps:
            return
        pk = dict(snaps[o["k"] % len(snaps)][1])
        how = o.get("how", "plain")
        flags0 = (gwy._disable_sending, gwy.config.disable_discovery)
        ctx.probe(f"restore_{how}")
        if how == "damaged":  # what a cache file damaged on disk looks like
            keys = list(pk)
            if keys:
                pk[keys[len(keys) // 2]] = "045  I --- 01:145038 --:------ 01:145038 1F09 003 FF"
                pk["not-a-timestamp"] = "garbage"
                pk[keys[0][:20]] = pk[keys[0]]
        try:
            if how == "cancel":  # the caller gives up (e.g. a start-up timeout) while the restore is under way
                t = loop.create_task(gwy._restore_cached_packets(pk))
                await asyncio.sleep(0)
                await asyncio.sleep(0)
                t.cancel()
                try:
                    await t
                except asyncio.CancelledError:
                    ctx.probe("restore_cancelled_midway")
            elif how == "concurrent":  # a snapshot is asked for while the restore is under way
                t = loop.create_task(gwy._restore_cached_packets(pk))
                await asyncio.sleep(0)
                await asyncio.sleep(0)
                before = (gwy._engine_state is not None, gwy._protocol._msg_handler is None, gwy._disable_sending)
                try:
                    gwy.get_state()
                except RuntimeError:
                    ctx.probe("get_state_refused_while_restoring")
                    after = (gwy._engine_state is not None, gwy._protocol._msg_handler is None, gwy._disable_sending)
                    if after != before and not t.done():
                        ctx.violate("C13", "refused_snapshot_changed_engine", "", f"{where}: a get_state() that was refused (a restore was "
                                    f"under way) changed the engine: (paused, handler detached, sending disabled) {before} -> {after}")
                try:
                    await t
                except Exception as err:  # noqa
                    ctx.violate("C13", "restore_failed", f"concurrent:{exc_sig(err)}", f"{where}: a restore that was under way failed with "
                                f"{type(err).__name__}({err}) because a snapshot was asked for (and refused) meanwhile")
            elif how == "twice":
                await gwy._restore_cached_packets(pk)
                await gwy._restore_cached_packets(pk)
            else:
                await gwy._restore_cached_packets(pk)
        except Exception as err:  # noqa
            ctx.probe(f"restore_raised_{type(err).__name__}")
        await asyncio.sleep(0.05)
        if (gwy._disable_sending, gwy.config.disable_discovery) != flags0:
            ctx.violate("C13", "flags_changed", f"restore_{how}", f"{where}: (disable_sending, disable_discovery) was {flags0}, now "
                        f"{(gwy._disable_sending, gwy.config.disable_discovery)}")
        await alive(f"restore_{how}")

    def moves(where):
        nonlocal place
        new = graph_check(ctx, gwy, where)
        moved = [(d, place[d], new[d]) for d in sorted(new) if d in place and place[d][1] != new[d][1]]
        n_now = inconsistencies()
        n_inc_before = n_inc_seen[0]
        if moved and n_now == n_inc_seen[0]:
            d, a, b = moved[0]
            ctx.violate("C15", "moved_silently", "", f"{where}: {d} moved from parent {a[1]} (ctl {a[0]}, child_id {a[2]}) to "
                        f"{b[1]} (ctl {b[0]}, child_id {b[2]}) and no inconsistency was reported")
        elif moved:
            ctx.probe("moved_but_reported")
        # ... and the holders of the single-holder roles (appliance control, a zone's sensor, the DHW sensor / valves): a role never
        # passes from one device to another without the inconsistency being reported
        roles_now: dict = {}
        try:
            for cid, sch in (gwy.schema or {}).items():
                if not isinstance(sch, dict):
                    continue
                roles_now[(cid, "appliance_control")] = (sch.get("system") or {}).get("appliance_control")
                for zi, zs in (sch.get("zones") or {}).items():
                    roles_now[(cid, f"zone {zi} sensor")] = (zs or {}).get("sensor")
                for part, dev in (sch.get("stored_hotwater") or {}).items():
                    roles_now[(cid, f"dhw {part}")] = dev
        except Exception:  # noqa  (views that raise are C13's business)
            roles_now = dict(roles_seen)
        swapped = [(key, roles_seen[key], dev) for key, dev in roles_now.items()
                   if dev is not None and roles_seen.get(key) not in (None, dev)]
        if swapped and n_now == n_inc_before:
            key, a, b = swapped[0]
            ctx.violate("C15", "role_replaced_silently", key[1].split()[0], f"{where}: the {key[1]} of {key[0]} was {a} and is now {b}, and no "
                        f"inconsistency was reported")
        elif swapped:
            ctx.probe("role_replaced_but_reported")
        roles_seen.clear()
        roles_seen.update(roles_now)
        n_inc_seen[0] = n_now
        place = new

    for name, n in sorted((k("hist_counts") or {}).items()):
        hub.count(name, n)
    glued = ""
    for si, o in enumerate(plan.ops):
        if dead[0]:
            break
        kind = o["op"]
        where = f"op {si} ({kind}) after {n_rx} packets"
        if kind == "rx":
            if o.get("glue") and si + 1 < len(plan.ops) and plan.ops[si + 1]["op"] == "rx":
                glued += f"045 {o['f']}\r\n"  # becomes readable together with the next frame: one read() returns both
                n_rx += 1
                continue
            hub.inject(ser, (glued + f"045 {o['f']}\r\n").encode())
            glued = ""
            if twin is not None and si not in foreign:
                hub.rx_line(ser_t, o["f"])
            n_rx += 1
            await asyncio.sleep(o.get("gap", 0.004))
            if n_rx % 16 == 0:
                moves(where)
        elif kind == "views":
            ctx.probe("views_read", read_views(ctx, gwy, where))
            if twin is not None:  # the same reads (a read is what notices an expired message), results not judged here
                read_views(_Quiet(), twin, where)
        elif kind == "state":
            await do_state(o, where)
            if twin is not None:
                try:
                    twin.get_state(include_expired=bool(o.get("exp")))
                except Exception:  # noqa
                    pass
        elif kind == "restore":
            await do_restore(o, where)
        elif kind == "adv":
            if o.get("how") == "jump":  # the host was suspended / the wall clock was stepped forward
                clock.jump(float(o["s"]))
                ctx.hub.count("clock_jump")
                await asyncio.sleep(0.01)
            else:
                await asyncio.sleep(min(float(o["s"]), 7300.0))
        elif kind == "config_check" and cfg_schema:
            await asyncio.sleep(0.05)
            want, got = topology(cfg_schema), topology(gwy.schema)
            ctx.probe("config_loads")
            if got != want:
                diff = []
                for c in sorted(set(want) | set(got)):
                    for part in ("zones", "dhw", "app"):
                        if (want.get(c) or {}).get(part) != (got.get(c) or {}).get(part):
                            diff.append(f"{c}.{part}: configured={(want.get(c) or {}).get(part)} reported={(got.get(c) or {}).get(part)}")
                ctx.violate("C15", "config_not_reproduced", diff[0].split(":")[1].split(".")[-1] if diff else "", f"a gateway loaded with a "
                            f"schema the validator accepts reports another topology: {'; '.join(diff)[:1200]}")
            moves(where)
            small = schema_check(ctx, gwy, where)
            if small is not None:
                await reload_check(ctx, gwy, small, where)
        elif kind == "schema":
            moves(where)
            small = schema_check(ctx, gwy, where)
            if small is not None and o.get("reload"):
                await reload_check(ctx, gwy, small, where)
    # foreign traffic never stops the tracking of the systems we know: the twin heard the same history without the foreign
    # system's packets -- every system it knows must look the same in both gateways
    if twin is not None and not dead[0]:
        read_views(_Quiet(), gwy, "pre-compare")
        read_views(_Quiet(), twin, "pre-compare")
        await asyncio.sleep(0.05)
        import json as _json

        def dump(x):
            return _json.dumps(x, sort_keys=True, default=str)

        for t2 in twin.systems:
            t1 = gwy.system_by_id.get(t2.ctl.id)
            if t1 is None:
                ctx.violate("C13", "interference", "system_missing", f"the known system {t2.ctl.id} does not exist in the gateway that also "
                            f"heard {len(foreign)} packets of an unrelated system")
                continue
            for view in ("schema", "params", "status"):
                try:
                    a, b = dump(shrink(getattr(t1, view))), dump(shrink(getattr(t2, view)))
                except Exception as err:  # noqa
                    ctx.probe(f"twin_view_raised_{type(err).__name__}")
                    continue
                if a != b:
                    da, db = _json.loads(a), _json.loads(b)
                    keys = [kk for kk in sorted(set(da) | set(db)) if da.get(kk) != db.get(kk)]
                    sub = keys[0] if keys else ""
                    za, zb = da.get(sub), db.get(sub)
                    if isinstance(za, dict) and isinstance(zb, dict):
                        k2 = [kk for kk in sorted(set(za) | set(zb)) if za.get(kk) != zb.get(kk)]
                        detail = f"{sub}.{k2[0]}: with foreign traffic {str(za.get(k2[0]))[:300]} / without {str(zb.get(k2[0]))[:300]}" if k2 else sub
                    else:
                        detail = f"{sub}: with foreign traffic {str(za)[:300]} / without {str(zb)[:300]}"
                    ctx.violate("C13", "interference", f"{view}.{sub}", f"the known system {t2.ctl.id}'s {view} differs between a gateway "
                                f"that also heard {len(foreign)} packets of an unrelated system ({k('splice')}) and one that did not: {detail}")
        ctx.probe("twin_comparisons")
        await twin.stop()
    tcs = None
    try:
        tcs = gwy.tcs
    except Exception:  # noqa
        pass
    zones = sorted(getattr(tcs, "zones", []) or [], key=lambda z: z.idx)[:8] if tcs is not None else []
    if zones and not dead[0]:
        temps = {z.idx: 1500 + 7 * i for i, z in enumerate(zones)}
        pl = "".join(f"{z}{t:04X}" for z, t in temps.items())
        hub.rx_line(ser, f" I --- {tcs.ctl.id} --:------ {tcs.ctl.id} 30C9 {len(pl) // 2:03d} {pl}")
        await asyncio.sleep(0.03)
        bad = []
        for z in zones:
            try:
                if z.temperature != temps[z.idx] / 100:
                    bad.append((z.id, z.temperature, temps[z.idx] / 100))
            except Exception as err:  # noqa
                bad.append((z.id, type(err).__name__, temps[z.idx] / 100))
        if bad:
            ctx.violate("C13", "stopped_tracking", "", f"a fresh 30C9 array from the known controller {tcs.ctl.id} is not reflected: "
                        f"{bad[:4]} (id, reported, sent)")
        ctx.probe("tracking_probe")
    if not dead[0]:
        await alive("history")
    ctx.probe("loop_exceptions_(counted_not_judged)", len(ctx.loop_excs))
    ctx.probe("inconsistencies_reported", inconsistencies())
    lg.removeHandler(inc)
    lg.setLevel(old_level)
    await gwy.stop()
    await asyncio.sleep(0.1)
    gc.collect()
    ctx.nontrivial = not k("fault_free")
    ctx.ab(f"{k('base')}|{k('splice')}|{k('eavesdrop')}|{k('max_zones')}")
    ctx.ab(",".join(o["op"][:2] + str(o.get("how", ""))[:3] for o in plan.ops if o["op"] != "rx"))
    ctx.sample = {"scenario": sc, "base": k("base"), "splice": k("splice"), "packets": n_rx, "eavesdrop": k("eavesdrop"),
                  "max_zones": k("max_zones"), "mutation_rates": {x: k(x) for x in ("p_del", "p_dup", "p_swap", "p_mut", "p_tgt")},
                  "ops": [o for o in plan.ops if o["op"] != "rx"][:8], "devices": len(gwy.devices)}


class CountingLog(io.TextIOWrapper):
    """a packet log whose consumption can be observed"""

    count = 0

    def __next__(self):
        line = super().__next__()
        self.count += 1
        return line


async def run_file(ctx) -> None:
    """The same history as a packet log replayed through Gateway(input_file=...): views, snapshots and restores are taken while the
    replay is under way (between two lines); afterwards the replay must still run to its end."""
    import datetime as _dt

    plan, loop, hub = ctx.plan, ctx.loop, ctx.hub
    k = plan.knob
    t = clock.EPOCH
    lines = []
    cached: dict[str, str] = {}
    n_rx = sum(1 for o in plan.ops if o["op"] == "rx")
    n_pre = int(n_rx * float(k("preload") or 0.0))
    seen = 0
    for o in plan.ops:
        if o["op"] == "rx":
            t += _dt.timedelta(seconds=max(0.001, float(o.get("gap", 0.004))))
            seen += 1
            if seen <= n_pre:  # what an application saved on its last run: the I/RP packets, keyed by their timestamps
                if o["f"][:2] in (" I", "RP"):
                    cached[t.isoformat(timespec="microseconds")] = f"... {o['f']}"
                continue
            lines.append(f"{t.isoformat(timespec='microseconds')} 045 {o['f']}")
    f = CountingLog(io.BytesIO(("\n".join(lines) + "\n").encode("latin-1")), encoding="latin-1")
    for name, n in sorted((k("hist_counts") or {}).items()):
        hub.count(name, n)
    hub.count("replayed_as_packet_log")
    gwy = Gateway(None, input_file=f, config={"enable_eavesdrop": bool(k("eavesdrop")), "max_zones": k("max_zones", 12)})
    snaps: list = []
    # the operations are due after a given number of log lines; with a packet log start() only returns at the end of the
    # log, so they are performed from the message handler (synchronously, between two lines) as an application would
    due: list[tuple[int, int, dict]] = []
    target = 0
    seen = 0
    for si, o in enumerate(plan.ops):
        if o["op"] == "rx":
            seen += 1
            target += 1 if seen > n_pre else 0
        elif o["op"] in ("views", "state", "schema"):
            due.append((target, si, o))
    if cached:
        hub.count("saved_state_given_to_start", len(cached))
        if not lines:
            ctx.probe("views_before_the_first_log_line_(saved_state_only)")
    tasks: list = []
    broken = [False]

    def perform(upto: int) -> None:
        while due and due[0][0] <= upto and not broken[0]:
            _n, si, o = due.pop(0)
            kind = o["op"]
            where = f"op {si} ({kind}) with {f.count} of {len(lines)} log lines replayed"
            if kind == "views":
                ctx.probe("views_read", read_views(ctx, gwy, where))
            elif kind == "state":
                try:
                    snaps.append(gwy.get_state(include_expired=bool(o.get("exp"))))
                    ctx.probe("snapshots_mid_replay" if f.count < len(lines) else "snapshots")
                except Exception as err:  # noqa
                    ctx.violate("C13", "view_raised", f"Gateway.get_state:{exc_sig(err)}", f"{where}: get_state() raised {type(err).__name__}: {err}")
                if gwy._engine_state is not None or gwy._protocol._msg_handler is None:
                    ctx.violate("C13", "left_paused", "get_state_mid_replay", f"{where}: the engine is still paused after get_state()")
                    broken[0] = True
            elif kind == "schema":
                small = schema_check(ctx, gwy, where)
                if small is not None and o.get("reload"):
                    tasks.append(loop.create_task(reload_check(ctx, gwy, small, where, topology(gwy.schema))))

    gwy.add_msg_handler(lambda msg: perform(f.count))
    stalled = False
    try:
        await asyncio.wait_for(gwy.start(cached_packets=cached or None), 300)
        await asyncio.wait_for(gwy._protocol.wait_for_connection_lost(), 120)
    except Exception as err:  # noqa
        stalled = True
        ctx.probe(f"replay_wait_raised_{type(err).__name__}")
    if stalled or f.count < len(lines):
        ctx.violate("C13", "not_receiving", "replay_stalled", f"the replay of the packet log stopped after {f.count} of {len(lines)} lines "
                    f"(after a snapshot taken while it was under way): the rest of the history never arrives")
    else:
        perform(len(lines) + 1)
    for t_ in tasks:
        try:
            await t_
        except Exception:  # noqa
            pass
    ctx.probe("views_read", read_views(ctx, gwy, "end of replay"))
    schema_check(ctx, gwy, "end of replay")
    try:
        await gwy.stop()
    except (Exception, asyncio.CancelledError):  # noqa: a stalled replay does not stop in an orderly way
        ctx.probe("stop_after_stalled_replay_raised")
    await asyncio.sleep(0.05)
    gc.collect()
    ctx.nontrivial = not k("fault_free")
    ctx.ab(f"file|{k('base')}|{k('splice')}|{k('eavesdrop')}")
    ctx.ab(",".join(o["op"][:2] for o in plan.ops if o["op"] != "rx"))
    ctx.sample = {"scenario": "views (packet log replay)", "base": k("base"), "lines": len(lines), "ops": [o for o in plan.ops if o["op"] != "rx"][:6]}


def on_hang(ctx, where: str, pending: list[str]) -> None:
    p = "C13" if ctx.plan.d["scenario"] != "restore" else "C16"
    ctx.violate(p, "hang", where, f"event loop ran dry at {where}; pending={pending}")


def on_wedge(ctx, desc: str) -> None:
    ctx.violate("C13", "wedged", desc.split("(")[0], desc)
