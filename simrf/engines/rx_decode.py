"""rx engine, scenarios `decode` (C05) and `logrt` (C02 log write -> replay)."""
from __future__ import annotations

import asyncio
import datetime as _dt
import glob
import json
import logging
import os

from .. import clock, world  # noqa: F401
from ..runner import exc_sig

import ramses_tx.protocol as P
import ramses_tx.transport as T
from ramses_tx import exceptions as exc
from ramses_tx.message import Message
from ramses_tx.packet import Packet

REJECT = (exc.PacketInvalid, ValueError)

# array-capable codes: element size in bytes (from the statement's list)
ARRAY_ELEM = {"0009": 3, "000A": 6, "2309": 3, "30C9": 3, "2249": 7, "22C9": 6, "3150": 2}
ARRAY_SRC = {"0009": "01", "000A": "01", "2309": "01", "30C9": "01", "2249": "23", "22C9": "02", "3150": "02"}
RATIO_KEYS = ("heat_demand", "relay_demand", "modulation_level", "valve_position", "rel_modulation_level", "air_quality",
              "battery_level", "bypass_position", "exhaust_fan_speed", "supply_fan_speed", "indoor_humidity",
              "outdoor_humidity", "max_rel_modulation", "post_heat", "pre_heat", "vent_demand", "percent_remaining", "demand")
TEMP_KEYS = ("temperature", "setpoint", "heat_setpoint", "min_temp", "max_temp")


def jdump(ctx, payload, where: str):
    try:
        return json.dumps(payload, sort_keys=True)
    except (TypeError, ValueError) as err:
        ctx.violate("C05", "not_json", type(err).__name__, f"{where}: payload not JSON-serialisable: {err}: {payload!r}"[:600])
        return None


def walk(ctx, x, where: str, key: str = "") -> None:
    if isinstance(x, dict):
        for k, v in x.items():
            if not isinstance(k, str):
                ctx.violate("C05", "key_type", type(k).__name__, f"{where}: non-string key {k!r}")
            walk(ctx, v, where, k if isinstance(k, str) else "")
    elif isinstance(x, (list, tuple)):
        if isinstance(x, tuple):
            ctx.probe("tuple_in_payload")
        for v in x:
            walk(ctx, v, where, key)
    elif isinstance(x, bool) or x is None or isinstance(x, (str, int)):
        pass
    elif isinstance(x, float):
        if x != x or x in (float("inf"), float("-inf")):
            ctx.violate("C05", "nan", key, f"{where}: {key}={x}")
        elif key in RATIO_KEYS and not (0.0 <= x <= 1.0):
            ctx.violate("C05", "ratio_range", key, f"{where}: {key}={x} outside 0..1")
        elif key in TEMP_KEYS and not (-327.68 <= x <= 327.67):
            ctx.violate("C05", "temp_range", key, f"{where}: {key}={x} outside the wire range")
    else:
        ctx.violate("C05", "plain_type", type(x).__name__, f"{where}: {key} has non-plain type {type(x).__name__}")


def frame_idx(code: str, verb: str, payload: str):
    """Independent extraction of the index a frame carries -> (key, value) or None."""
    if code == "0418":
        return ("log_idx", payload[4:6])
    if code == "3220":
        return ("msg_id", int(payload[4:6], 16))
    return None


def decode(ctx, dtm: str, line: str):
    try:
        pkt = Packet.from_file(dtm, line)
        msg = Message(pkt)
    except REJECT:
        return None, None
    except Exception as err:  # noqa  -- C01's business, counted here
        ctx.probe("decode_other_exception")
        return None, None
    return pkt, msg


async def run_decode(ctx) -> None:
    plan, loop = ctx.plan, ctx.loop
    lines = [o["text"] for o in plan.ops if o["op"] == "line"]
    dtms = [(_dt.datetime(2023, 11, 5, 8) + _dt.timedelta(seconds=7 * i)).isoformat(timespec="microseconds")
            for i in range(len(lines))]
    # pass 1: in order, cold caches, clock at epoch
    base: dict[int, str] = {}
    for i, s in enumerate(lines):
        pkt, msg = decode(ctx, dtms[i], s)
        if msg is None:
            continue
        where = f"{s!r}"
        walk(ctx, msg.payload, where)
        j = jdump(ctx, msg.payload, where)
        if j is None:
            continue
        base[i] = j
        check_index(ctx, pkt, msg, where)
        check_array(ctx, pkt, msg, dtms[i], s)
    # pass 2: permuted, with duplicates, clock far away, caches overflowed in between
    r = plan.rng("perm")
    order = list(base) + [r.choice(list(base)) for _ in range(len(base) // 4)] if base else []
    order = plan.decide("order", lambda rr: rr.sample(order, len(order)), order)
    clock.jump(plan.knob("gap_days", 0) * 86400 + 3.7)
    await asyncio.sleep(0.5)
    if plan.decide("flush_caches", lambda rr: rr.random() < 0.5, False):
        from ramses_tx.address import pkt_addrs

        for n in range(300):
            try:
                pkt_addrs(f"04:{n:06d} --:------ 04:{n:06d}")
            except Exception:  # noqa
                pass
    n_diff = 0
    for i in order:
        pkt, msg = decode(ctx, dtms[i], lines[i])
        if msg is None:
            ctx.violate("C05", "nondeterministic", "decodes_then_not", f"{lines[i]!r} decoded in pass 1 but not in pass 2")
            continue
        j = jdump(ctx, msg.payload, lines[i])
        if j != base[i]:
            n_diff += 1
            ctx.violate("C05", "nondeterministic", "payload_differs", f"{lines[i]!r}: first {base[i][:300]} then {j and j[:300]}")
    # pass 3: through a live protocol (serial), other order again: payload at handler time
    got: list[tuple[str, str]] = []

    def handler(msg):
        j = jdump(ctx, msg.payload, str(msg._pkt))
        line = f"{msg._pkt._rssi} {msg._pkt}"
        _p, m2 = decode(ctx, msg.dtm.isoformat(timespec="microseconds"), line)
        j2 = jdump(ctx, m2.payload, line) if m2 is not None else None
        got.append((line, j, j2))

    ser = ctx.hub.add_port("/dev/sim0", "18:006402")
    ctx.hub.split_mode = "all"
    proto = P.protocol_factory(handler, disable_qos=True)
    tr = T.PortTransport(ser, proto, loop=loop)
    await proto.wait_for_connection_made(timeout=3)
    await asyncio.sleep(0.2)
    got.clear()
    order3 = plan.decide("order3", lambda rr: rr.sample(list(base), len(base)), list(base))
    for i in order3:
        ctx.hub.deliver(ser, lines[i].encode("latin-1") + b"\r\n")
        await asyncio.sleep(0.003)
    await asyncio.sleep(0.3)
    for text, j, j2 in got:
        if j != j2:  # same packet, same timestamp: decoded by the live stack vs decoded on its own
            ctx.violate("C05", "nondeterministic", "live_vs_isolated", f"{text!r}: live {str(j)[:300]} isolated {str(j2)[:300]}")
    ctx.probe("live_decodes_compared", len(got))
    tr.close()
    await asyncio.sleep(0.05)
    # pass 4: through a whole Gateway (which re-classes messages and merges the two halves of a split array), replayed as a packet
    # log 0.4 s apart, every array line twice (so that array pairs of one source occur): the payload a handler was given is the
    # same whenever it is looked at again -- a later packet never changes an earlier message
    import io
    from ramses_rf import Gateway

    seen4: list[tuple] = []
    n_exc4 = len(ctx.loop_excs)

    def handler4(msg):
        seen4.append((msg, jdump(ctx, msg.payload, str(msg._pkt)), str(msg._pkt)))

    rows = []
    t4 = _dt.datetime(2023, 11, 6, 8)
    for i in order3:
        reps = 2 if (lines[i][4:6].strip() == "I" and (isinstance(json.loads(base[i]), list) or " 000A " in lines[i][:50]
                                                       or " 22C9 " in lines[i][:50])) else 1
        for _ in range(reps):
            t4 += _dt.timedelta(seconds=0.4)
            rows.append(f"{t4.isoformat(timespec='microseconds')} {lines[i]}")
    if rows:
        gw4 = Gateway(None, input_file=io.TextIOWrapper(io.BytesIO(("\n".join(rows) + "\n").encode("latin-1")), encoding="latin-1"),
                      config={"disable_discovery": True, "enforce_known_list": False, "reduce_processing": 0})
        gw4.add_msg_handler(handler4)
        try:
            await asyncio.wait_for(gw4.start(), 120)
        except Exception as err:  # noqa
            ctx.probe(f"gateway_pass_start_raised_{type(err).__name__}")
        await asyncio.sleep(0.2)
        for msg, j_then, text in seen4:
            j_now = jdump(ctx, msg.payload, text)
            if j_now != j_then:
                ctx.violate("C05", "nondeterministic", "payload_changed_after_delivery", f"{text!r}: the handler was given "
                            f"{str(j_then)[:300]}; the same message now reads {str(j_now)[:300]}")
                break
        ctx.probe("gateway_pass_messages", len(seen4))
        # C01: nothing escapes the receive path -- the gateway's own message handler (array-fragment merging, dispatch) included;
        # what devices' handlers, run later from the loop, make of the packets is C13's subject and is not judged here
        for e in ctx.loop_excs[n_exc4:]:
            if "pkt_received" in e["message"] or "_msg_received" in e["message"] or "_msg_handler" in e["message"]:  # the receive chain
                ctx.violate("C01", "loop_exc", e["sig"], f"whole-gateway replay: unhandled in the loop: {e['type']}: {e['text']}")
                break
        try:
            await gw4.stop()
        except Exception:  # noqa
            pass
        await asyncio.sleep(0.05)
    ctx.ab(f"decode:{len(lines)}:{len(base)}")
    for i in sorted(base):
        ctx.ab(lines[i][4:6] + lines[i][41:45])
    ctx.nontrivial = len(base) >= 2
    ctx.probe("decoded", len(base))
    ctx.sample = {"scenario": "decode", "lines": len(lines), "decoded": len(base),
                  "first": [(lines[i], base[i][:120]) for i in sorted(base)[:2]]}


def check_index(ctx, pkt, msg, where: str) -> None:
    pl = msg.payload
    code, verb, raw = pkt.code, pkt.verb, pkt.payload
    ind = frame_idx(code, verb, raw)
    if isinstance(pl, dict):
        if ind and ind[0] in pl and pl[ind[0]] is not None and pl[ind[0]] != ind[1] and len(raw) >= 6:
            if not (code == "0418" and raw == "000000B0000000000000000000007FFFFF7000000000"):
                ctx.violate("C05", "index", f"{code}:{ind[0]}", f"{where}: reports {ind[0]}={pl[ind[0]]!r}, frame carries {ind[1]!r}")
        for key in ("zone_idx", "domain_id", "ufh_idx", "dhw_idx"):
            if key in pl and isinstance(pl[key], str) and len(pl[key]) == 2 and code not in ("000C", "0005", "0404", "0418", "3220"):
                v = pl[key]
                if key in ("zone_idx", "domain_id") and v != raw[:2] and not (key == "dhw_idx"):
                    # the idx may legitimately come from another byte for a few codes; only simple-idx codes are judged
                    from ramses_tx.ramses import CODE_IDX_ARE_SIMPLE

                    if code in CODE_IDX_ARE_SIMPLE:
                        ctx.violate("C05", "index", f"{code}:{key}", f"{where}: reports {key}={v!r}, frame carries {raw[:2]!r}")


def check_array(ctx, pkt, msg, dtm: str, line: str) -> None:
    code = pkt.code
    if code not in ARRAY_ELEM or pkt.verb != " I":
        return
    n_el, rem = divmod(len(pkt.payload), ARRAY_ELEM[code] * 2)
    if not isinstance(msg.payload, list):
        # a broadcast (src == dst) of an array-capable code carrying two or more whole elements is an array, whoever sends it
        # (HVAC 22C9/3150 from 21:/32: use other layouts: only the heat-domain device types are judged)
        if rem == 0 and n_el >= 2 and pkt.src.id == pkt.dst.id and pkt.src.type in ("01", "02", "10", "12", "22", "23", "03"):
            ctx.violate("C05", "array_len", f"{code}:not_a_list", f"{line!r}: {n_el} elements on the wire but the payload is decoded as "
                        f"one {type(msg.payload).__name__}: {str(msg.payload)[:200]}")
        return
    if pkt.src.type != ARRAY_SRC[code] or pkt.src.id != pkt.dst.id:
        ctx.probe("array_from_odd_source_not_judged")
        return
    n = ARRAY_ELEM[code] * 2
    raw = pkt.payload
    if len(raw) % n or len(raw) // n != len(msg.payload):
        ctx.violate("C05", "array_len", code, f"{line!r}: {len(raw) // n} elements on the wire, {len(msg.payload)} decoded")
        return
    ctx.probe("arrays_checked")
    head = line[:46 + 0]
    for k in range(len(raw) // n):
        el = raw[k * n:(k + 1) * n]
        single = f"{line[:50 - 4]}{len(el) // 2:03d} {el}"
        p1, m1 = decode(ctx, dtm, single)
        if m1 is None:
            ctx.probe("array_element_not_decodable_alone")
            continue
        one = m1.payload
        if isinstance(one, list):
            if len(one) != 1:
                continue
            one = one[0]
        one = {k_: v for k_, v in one.items() if k_ != "seqx_num"} if isinstance(one, dict) else one  # frame metadata
        if json.dumps(one, sort_keys=True, default=str) != json.dumps(msg.payload[k], sort_keys=True, default=str):
            ctx.violate("C05", "elementwise", code, f"{line!r}: element {k} decodes to {msg.payload[k]!r} in the array but "
                        f"to {one!r} on its own ({single!r})")


# ---------------------------------------------------------------------------------------
# C02: live session with a packet log -> replay of the log
# ---------------------------------------------------------------------------------------

async def run_logrt(ctx) -> None:
    import ramses_tx
    from .rx import pkt_key

    plan, loop, hub = ctx.plan, ctx.loop, ctx.hub
    lines = [o["text"] for o in plan.ops if o["op"] == "line"]
    d = ctx.tmpdir()
    fname = os.path.join(d, "packet.log")
    rot = plan.knob("rotate", "none")
    cfg = {"file_name": fname}
    if rot == "bytes":
        cfg.update(rotate_bytes=4000, rotate_backups=50)
    elif rot == "midnight":
        cfg.update(rotate_backups=3)
    clock.jump(plan.knob("start_offset_s", 0))
    ramses_tx.set_pkt_logging_config(**cfg)
    live: list[tuple] = []
    proto = P.protocol_factory(lambda m: None, disable_qos=True)
    orig = proto.pkt_received

    def rec(pkt):
        live.append((pkt_key(pkt), pkt.dtm))
        orig(pkt)

    proto.pkt_received = rec
    ser = hub.add_port("/dev/sim0", "18:006402")
    tr = T.PortTransport(ser, proto, loop=loop)
    await proto.wait_for_connection_made(timeout=3)
    await asyncio.sleep(0.2)
    live.clear()
    t_first = clock.wall_of(loop.time())
    for i, s in enumerate(lines):
        hub.deliver(ser, s.encode("latin-1") + b"\r\n")
        await asyncio.sleep(plan.decide(f"gap{i}", lambda r: r.choice([0.0, 0.0, 0.003, 0.02, 1.5, 30.0]), 0.01))
    await asyncio.sleep(0.5)
    tr.close()
    await asyncio.sleep(0.05)
    for h in list(logging.getLogger("ramses_tx.packet_log").handlers):
        h.flush()
        h.close()
    # collect the log file(s), oldest first
    files = sorted(glob.glob(fname + "*"), key=lambda p: (os.path.getmtime(p), p))
    text_lines: list[str] = []
    names = []
    if rot == "bytes":
        backups = sorted((p for p in files if p != fname), key=lambda p: -int(p.rsplit(".", 1)[1]))
        files = backups + [fname]
    elif rot == "midnight":
        backups = sorted(p for p in files if p != fname)
        files = backups + [fname]
    for p in files:
        names.append(os.path.basename(p))
        with open(p, encoding="latin-1") as f:
            text_lines.extend(f.read().splitlines())
    # replay through a fresh stack
    got: list[tuple] = []

    class _P(P.ReadProtocol):
        def pkt_received(self, pkt):  # type: ignore[override]
            got.append((pkt_key(pkt), pkt.dtm))
            super().pkt_received(pkt)

    import io

    body = "\n".join(text_lines) + "\n"
    proto2 = _P(lambda m: None)
    tr2 = T.FileTransport(io.TextIOWrapper(io.BytesIO(body.encode("latin-1")), encoding="latin-1"), proto2, loop=loop)
    for _ in range(3):  # connection_made() is call_soon'ed; only then is there a future to wait on.  (Not sleep(0.001): the
        await asyncio.sleep(0)  # reader yields with sleep(0) per line, so the whole log would be replayed before the clock moves)
    # the application may pause the replay for a while (an engine does, for every snapshot / restore): nothing may be lost
    pauses = plan.decide("replay_pauses", lambda r: [[r.randrange(1, 60), r.choice([1, 2, 5])] for _ in range(r.choice([0, 0, 1, 3]))], [])
    for after, turns in pauses:
        for _ in range(after):
            await asyncio.sleep(0)
        if tr2.is_closing() if hasattr(tr2, "is_closing") else False:
            break
        tr2.pause_reading()
        ctx.hub.count("replay_paused")
        for _ in range(turns):
            await asyncio.sleep(0.0011)
        tr2.resume_reading()
    try:
        err = await proto2.wait_for_connection_lost(timeout=60)
    except Exception as e:  # noqa
        err = e
    if err is not None:
        ctx.violate("C02", "log_replay_cut", exc_sig(err) if isinstance(err, BaseException) else "", f"{err}")
    # a bare CR (or VT/FF) inside a received line survives into the text log as a line break
    ctl = "embedded_cr" if any(any(c in ln.rstrip("\r") for c in "\r\x0b\x0c") for ln in lines) else ""
    live_pkts = [(k, t) for (k, t) in live if " 7FFF " not in k[1]]
    got_pkts = [(k, t) for (k, t) in got if " 7FFF " not in k[1]]
    if [k for k, _ in got_pkts] != [k for k, _ in live_pkts]:
        i = next((i for i, (a, b) in enumerate(zip(got_pkts, live_pkts)) if a[0] != b[0]), min(len(got_pkts), len(live_pkts)))
        ctx.violate("C02", "log_roundtrip", "sequence" + (":" + ctl if ctl else ""), f"replay of the packet log gives {len(got_pkts)} packets, the live session "
                    f"saw {len(live_pkts)}; first difference at #{i}: replay={got_pkts[i][0] if i < len(got_pkts) else None} "
                    f"live={live_pkts[i][0] if i < len(live_pkts) else None}; files={names}")
    else:
        prev = None
        for (k, t_rep), (_, t_live) in zip(got_pkts, live_pkts):
            delta = (t_rep - t_live).total_seconds()
            if not (0.0 <= delta < 0.002):
                ctx.violate("C02", "log_roundtrip", "timestamp", f"{k[1]!r}: live dtm {t_live.isoformat()} replayed as "
                            f"{t_rep.isoformat()} (delta {delta:+.6f}s)")
                break
            if prev is not None and t_rep < prev:
                ctx.violate("C02", "log_roundtrip", "order", f"log timestamps go backwards at {k[1]!r}")
                break
            prev = t_rep
    # every packet line in the file splits as [:26] / [27:] into exactly its timestamp and packet
    for ln in text_lines:
        if not ln.strip() or ln.lstrip()[:1] == "#":
            continue
        try:
            _dt.datetime.fromisoformat(ln[:26])
        except ValueError:
            ctx.violate("C02", "log_line_format", ctl, f"log line does not start with a 26-char timestamp: {ln!r}")
            break
    for e in ctx.loop_excs:
        ctx.probe("loop_exc_during_logrt")
    ctx.probe("log_files", len(files))
    ctx.ab(f"logrt:{rot}:{len(files)}:{len(live_pkts)}")
    for o in plan.ops:
        ctx.ab(o.get("src", "")[:30])
    ctx.nontrivial = len(live_pkts) >= 1
    ctx.sample = {"scenario": "logrt", "rotate": rot, "files": names, "live_packets": len(live_pkts),
                  "first_log_lines": text_lines[:3]}
    from .rx import monitor_c02

    monitor_c02(ctx, lines)
