"""Engine `rx`: the receive path.  Scenarios:
  serial  (C01): byte stream on FakeSerial under read-segmentation schedules  (PortTransport)
  file    (C01): packet-log replay   (FileTransport, TextIOWrapper)
  dict    (C01): packet-dict replay  (FileTransport, dict)
  mqtt    (C01): MQTT JSON messages  (MqttTransport with a fake paho client)
  decode  (C05): decode determinism across order / clock / cache state + monitored clauses
  logrt   (C02): live session with a packet log, then replay of that log
"""
from __future__ import annotations

import asyncio
import os
import re
import datetime as _dt
import gc
import io
import json
import os

from .. import clock, gen, world  # noqa: F401
from ..runner import exc_sig
from ..vloop import T0

import ramses_tx.protocol as P
import ramses_tx.transport as T
from ramses_tx import exceptions as exc
from ramses_tx.message import Message
from ramses_tx.packet import Packet
from ramses_tx.ramses import CODES_SCHEMA

GID = "18:006402"
REJECT = (exc.PacketInvalid, ValueError)


# ---------------------------------------------------------------------------------------
# generation
# ---------------------------------------------------------------------------------------

FOCUS_CODES = ["1F09", "30C9", "2309", "000A", "3150", "0418", "0404", "3220", "1FC9", "7FFF", "10E0", "0008", "3EF0",
               "31DA", "000C", "0005", "2349", "1F41", "313F", "0009"]
_by_code: dict[str, list] = {}


def gen_lines(r, n: int, p_corrupt: float, ascii_only: bool = False, p_schema: float = 0.4) -> list[dict]:
    cor = gen.corpus()["frames"]
    if not _by_code:
        for ent in cor:
            _by_code.setdefault(ent[1][41:45], []).append(ent)
    # swarm: many runs concentrate on one code, so that related packets (several controllers' sync cycles,
    # fragments of one schedule, one device's OpenTherm ids ...) meet inside one stream
    focus = r.choice(FOCUS_CODES) if r.random() < 0.4 else None
    out = []
    while len(out) < n:
        if focus and r.random() < 0.5 and (_by_code.get(focus) or focus in CODES_SCHEMA):
            if _by_code.get(focus) and r.random() < 0.7:
                dtm, body = r.choice(_by_code[focus])
                line, src = (body if body[:3] != "..." else gen.rssi(r) + body[3:]), "corpus"
            else:
                f = gen.schema_frame(r, {focus: CODES_SCHEMA[focus]})
                if f is None:
                    continue
                line, src = f"{gen.rssi(r)} {f}", "schema"
        elif r.random() < 0.3:
            dtm, body = r.choice(_by_code[focus]) if (focus and _by_code.get(focus) and r.random() < 0.5) else r.choice(cor)
            body = gen.mutate_field(body, r, CODES_SCHEMA)
            if body is None:
                continue
            line, src = (body if body[:3] != "..." else gen.rssi(r) + body[3:]), "mutfield"
        elif r.random() < p_schema:
            f = gen.schema_frame(r, CODES_SCHEMA)
            if f is None:
                continue
            line, src = f"{gen.rssi(r)} {f}", "schema"
        else:
            dtm, body = r.choice(cor)
            line, src = (body if body[:3] != "..." else gen.rssi(r) + body[3:]), "corpus"
            if r.random() < 0.1:
                line += r.choice([" # a trailing comment", " * Checksum error", " < hint"])
        edits = []
        if r.random() < p_corrupt:
            line, edits = gen.corrupt(line, r)
            if ascii_only:
                line = "".join(c for c in line if 32 <= ord(c) < 127 or c == "\t")
            src += "+" + "+".join(edits)
        line = line.replace("\n", "").replace("\r\n", "")
        out.append({"op": "line", "text": line, "src": src})
    return out


def array_frame(r) -> str:
    """A well-formed array of 1-8 per-zone elements from the kind of device that sends it."""
    code = r.choice(["0009", "000A", "2309", "30C9", "2249", "22C9", "3150"])
    n = r.randrange(1, 9)
    idxs = sorted(r.sample(range(12), n)) if code != "0009" else None
    t = lambda: f"{r.choice([r.randrange(500, 3500), 0x7FFF, 0x07D0, 0x0000]):04X}"  # noqa: E731
    els = []
    for j in range(n):
        z = f"{idxs[j]:02X}" if idxs else ["FC", "F9", "FA", "00", "01", "02", "03", "04"][j]
        if code == "0009":
            els.append(f"{z}{r.choice(['00', '01'])}FF")
        elif code == "000A":
            if r.random() < 0.15:  # a zone the controller has, but without a configuration (the documented null element)
                els.append(f"{z}007FFF7FFF")
            else:
                els.append(f"{z}{r.choice(['00', '10', '08', '18'])}{r.randrange(500, 2100):04X}{r.randrange(2100, 3500):04X}")
        elif code in ("2309", "30C9"):
            els.append(f"{z}{t()}")
        elif code == "2249":
            sp = lambda: "7FFF" if r.random() < 0.1 else f"{r.randrange(500, 3500):04X}"  # noqa: E731
            els.append(f"{z}{sp()}{sp()}{r.randrange(0, 1440):04X}")
        elif code == "22C9":
            sp = lambda a, b: "7FFF" if r.random() < 0.1 else f"{r.randrange(a, b):04X}"  # noqa: E731
            els.append(f"{z}{sp(500, 2000)}{sp(2000, 3500)}01")
        elif code == "3150":
            els.append(f"{z}{r.randrange(0, 201):02X}")
    src = {"2249": "23:100224", "22C9": "02:001107", "3150": "02:001107"}.get(code, "01:145038")
    pl = "".join(els)
    return f"{gen.rssi(r)}  I --- {src} --:------ {src} {code} {len(pl) // 2:03d} {pl}"


def generate(plan) -> None:
    sc = plan.d["scenario"]
    r = plan.rng("gen")
    k = plan.d["knobs"]
    fault_free = r.random() < 0.15
    k["fault_free"] = fault_free
    k["drift"] = r.choice([0.0, 2e-4, -2e-4])
    n = r.choice([5, 20, 40, 80, 150])
    p_corrupt = 0.0 if fault_free else r.choice([0.05, 0.2, 0.5])
    k["p_corrupt"] = p_corrupt
    if sc == "serial":
        k["split_rate"] = 0.0 if fault_free else r.choice([0.3, 0.6, 0.9])
        plan.d["ops"] = gen_lines(r, n, p_corrupt)
    elif sc in ("file", "dict", "mqtt"):
        plan.d["ops"] = gen_lines(r, n, p_corrupt, ascii_only=(sc != "mqtt"))
        if sc == "file" and not fault_free:
            for _ in range(r.randrange(0, 4)):
                plan.d["ops"].insert(r.randrange(len(plan.d["ops"]) + 1),
                                     {"op": "rawline", "text": r.choice(["", "# a comment line", "   ", "#", "garbage",
                                                                         "2023-01-01T00:00:00.000000",
                                                                         "2023-13-45T99:00:00.000000 045  I --- 01:145038 --:------ 01:145038 1F09 003 FF0708",
                                                                         "not-a-timestamp-at-all-xx 045  I --- 01:145038 --:------ 01:145038 1F09 003 FF0708"])})
    elif sc == "decode":
        k["p_corrupt"] = 0.0
        plan.d["ops"] = gen_lines(r, n, 0.0)
        for _ in range(r.choice([1, 2, 4])):
            plan.d["ops"].insert(r.randrange(len(plan.d["ops"]) + 1), {"op": "line", "text": array_frame(r), "src": "array"})
        k["gap_days"] = r.choice([0, 0, 1, 400])
    elif sc == "logrt":
        k["rotate"] = r.choice(["none", "none", "bytes", "midnight"])
        k["start_offset_s"] = r.choice([0, 0, 43150, 43190])  # EPOCH is 12:00: some runs cross midnight
        k["split_rate"] = 0.0 if fault_free else r.choice([0.0, 0.5])
        plan.d["ops"] = gen_lines(r, r.choice([5, 20, 60]), min(p_corrupt, 0.2))


# ---------------------------------------------------------------------------------------
# helpers
# ---------------------------------------------------------------------------------------

def pkt_key(pkt) -> tuple:
    return (pkt._rssi, str(pkt), pkt.comment, pkt.error_text)


def isolate_serial(ctx, text: str, dtm_iso: str):
    """What the serial path makes of one raw line, in isolation (same transparent hacks)."""
    raw = text.encode("latin-1") + b"\r\n"
    frame = T._normalise(T._str(raw))
    if not frame.strip():
        return None
    try:
        return Packet.from_file(dtm_iso, frame)
    except REJECT:
        return None
    except Exception as err:  # noqa
        ctx.violate("C01", "exc_type", "from_file:" + exc_sig(err), f"Packet.from_file({frame!r}) raised "
                    f"{type(err).__name__}: {err}")
        return None


def isolate_msg(ctx, pkt, where: str):
    try:
        return Message(pkt)
    except exc.PacketInvalid:
        return None
    except Exception as err:  # noqa
        ctx.violate("C01", "exc_type", f"Message:{exc_sig(err)}", f"Message({pkt}) raised {type(err).__name__}: {err}")
        return None


def check_ctor_types(ctx, text: str) -> None:
    """Oracle 1: only PacketInvalid / ValueError may leave the three constructors and Message."""
    dtm = "2024-01-10T12:00:00.000000"
    for name, fn in (("from_file", lambda: Packet.from_file(dtm, text)),
                     ("from_port", lambda: Packet.from_port(_dt.datetime(2024, 1, 10, 12), text)),
                     ("from_dict", lambda: Packet.from_dict(dtm, text))):
        try:
            pkt = fn()
        except REJECT:
            continue
        except Exception as err:  # noqa
            ctx.violate("C01", "exc_type", f"{name}:{exc_sig(err)}", f"Packet.{name}({text!r}) raised "
                        f"{type(err).__name__}: {err}")
            continue
        try:
            Message(pkt)
        except exc.PacketInvalid:
            pass
        except Exception as err:  # noqa
            ctx.violate("C01", "exc_type", f"Message:{exc_sig(err)}", f"Message({text!r}) raised "
                        f"{type(err).__name__}: {err}")


def lines_of(plan) -> list[str]:
    return [o["text"] for o in plan.ops if o["op"] == "line"]


# ---------------------------------------------------------------------------------------
# serial
# ---------------------------------------------------------------------------------------

async def serial_pass(ctx, tag: str, lines: list[str], mode: str):
    """Deliver the same byte stream under one read schedule; return the delivered packet keys."""
    hub, loop, plan = ctx.hub, ctx.loop, ctx.plan
    name = f"/dev/sim{tag}"
    ser = hub.add_port(name, GID)
    hub.cast_between_ports = False
    got: list[tuple] = []
    msgs: list = []
    proto = P.protocol_factory(msgs.append, disable_qos=True)
    orig = proto.pkt_received

    def rec(pkt):
        got.append(pkt_key(pkt))
        orig(pkt)

    proto.pkt_received = rec
    # a dongle that is silent during the whole start-up signature poll (the transport then connects without an id): the echo of
    # that poll turns up late, in the same read as the first frames of the stream
    late_sig = bool(plan.decide("late_signature_echo", lambda r: r.random() < 0.12, False))
    polls: list[bytes] = []
    if late_sig:
        hub.echo_policy = lambda ser_, frame, nth: (polls.append(frame) or [])
        hub.count("signature_echo_after_the_poll_gave_up")
    tr = T.PortTransport(ser, proto, loop=loop)
    await proto.wait_for_connection_made(timeout=3)
    hub.echo_policy = None
    await asyncio.sleep(0.2)
    got.clear()
    msgs.clear()
    n_exc0 = len(ctx.loop_excs)
    stream = b"".join(s.encode("latin-1") + b"\r\n" for s in lines)
    if late_sig and polls:
        first = lines[0].encode("latin-1") + b"\r\n" if lines else b""
        stream = first + b"000 " + polls[0] + b"\r\n" + stream[len(first):]
        if mode == "aligned":
            lines = lines[:1] + ["000 " + polls[0].decode("latin-1")] + lines[1:]
    if mode == "aligned":
        hub.split_mode = "all"
        for s in lines:
            hub.deliver(ser, s.encode("latin-1") + b"\r\n")
            await asyncio.sleep(0.01)
    else:
        hub.split_mode = "plan"
        cuts = plan.decide(f"chunks{tag}", lambda r: sorted(r.randrange(0, len(stream) + 1)
                                                             for _ in range(r.choice([0, 1, 3, 10, 40]))), [])
        pos = 0
        for c in list(cuts) + [len(stream)]:
            if c > pos:
                hub.deliver(ser, stream[pos:c])
                pos = c
            await asyncio.sleep(plan.decide(f"gap{tag}@{c}", lambda r: r.choice([0.0, 0.0, 0.001, 0.02]), 0.0))
    await asyncio.sleep(0.5)
    for _ in range(5):
        if not ser.rx:
            break
        await asyncio.sleep(0.1)
    new_excs = ctx.loop_excs[n_exc0:]
    tr.close()
    await asyncio.sleep(0.1)
    if late_sig:  # (the dongle's own signature frame is not part of the offered stream)
        got = [g for g in got if " 7FFF " not in g[1] or GID not in g[1][:20]]
    return got, msgs, new_excs, bytes(ser.rx)


async def run_serial(ctx) -> None:
    plan = ctx.plan
    lines = lines_of(plan)
    for s in lines:
        check_ctor_types(ctx, s)
    want = []
    for s in lines:
        pkt = isolate_serial(ctx, s, "2024-01-10T12:00:00.000")
        if pkt is not None:
            want.append(pkt_key(pkt))
    results = {}
    for tag, mode in (("A", "plan"), ("B", "plan"), ("C", "aligned")):
        got, msgs, excs, left = await serial_pass(ctx, tag, lines, mode)
        results[tag] = got
        for e in excs:
            ctx.violate("C01", "loop_exc", e["sig"], f"pass {tag}: unhandled in the loop while receiving: {e['type']}: "
                        f"{e['text']} ({e['message']})")
        if left:
            ctx.violate("C01", "bytes_left", "", f"pass {tag}: {len(left)} bytes never read")
        if got != want:
            i = next((i for i, (a, b) in enumerate(zip(got, want)) if a != b), min(len(got), len(want)))
            ctx.violate("C01", "continuity", "serial", f"pass {tag}: delivered {len(got)} packets, {len(want)} lines decode in "
                        f"isolation; first difference at #{i}: got={got[i] if i < len(got) else None} "
                        f"want={want[i] if i < len(want) else None}")
    if results["A"] != results["B"] or results["A"] != results["C"]:
        ctx.violate("C01", "segmentation", "", "the same byte stream delivered different frame sequences under different "
                    f"read partitions: lens A={len(results['A'])} B={len(results['B'])} aligned={len(results['C'])}")
    ctx.ab(f"serial:{len(lines)}:{len(want)}")
    for o in plan.ops:
        ctx.ab(o.get("src", "")[:40])
    ctx.nontrivial = len(want) < len(lines) or ctx.hub.fault_counts.get("read_split", 0) > 0
    ctx.sample = {"scenario": "serial", "lines": len(lines), "decodable": len(want), "first_lines": lines[:3],
                  "read_splits": ctx.hub.fault_counts.get("read_split", 0)}
    monitor_c02(ctx, lines)


# ---------------------------------------------------------------------------------------
# file / dict
# ---------------------------------------------------------------------------------------

def dtm_of(i: int) -> str:
    secs = float(int(i * 0.731)) if i % 7 == 0 else i * 0.731  # every 7th entry is stamped on a whole second (second-resolution logs)
    return (_dt.datetime(2023, 11, 5, 8, 0, 0) + _dt.timedelta(seconds=secs)).isoformat(timespec="microseconds")


async def run_file(ctx, as_dict: bool) -> None:
    plan = ctx.plan
    entries = []  # (dtm, text) or raw
    i = 0
    for o in plan.ops:
        if o["op"] == "line":
            entries.append((dtm_of(i), o["text"]))
            i += 1
        elif o["op"] == "rawline" and not as_dict:
            entries.append((None, o["text"]))
    for _, s in entries:
        if _ is not None:
            check_ctor_types(ctx, s)
    want = []
    for dtm, s in entries:
        if dtm is None:
            line = s.strip()
            if not line or line[:1] == "#":
                continue
            d, f = line[:26], line[27:]
        elif as_dict:
            d, f = dtm, s
        else:
            line = f"{dtm} {s}".strip()
            if not line or line[:1] == "#":
                continue
            d, f = line[:26], line[27:]
        if not f.strip():
            continue
        try:
            pkt = Packet.from_file(d, f)
        except REJECT:
            continue
        except Exception as err:  # noqa
            ctx.violate("C01", "exc_type", "from_file:" + exc_sig(err), f"Packet.from_file({d!r}, {f!r}) raised "
                        f"{type(err).__name__}: {err}")
            continue
        msg = isolate_msg(ctx, pkt, "file")
        if msg is not None:
            want.append((pkt_key(pkt), pkt.dtm.isoformat()))
            # C02, the saved-state / packet-dict form of a log line: repr(pkt) is '<26-char timestamp> <frame ...>', which is what
            # get_state() writes and what the replayer slices at [:26] / [27:] -- it must give back an equal packet, same timestamp
            rp = repr(pkt)
            try:
                back = Packet.from_dict(rp[:26], rp[27:])
                same = str(back) == str(pkt) and back.dtm == pkt.dtm
            except Exception as err:  # noqa
                same, back = False, f"{type(err).__name__}: {err}"
            if not same:
                ctx.violate("C02", "dict_line_roundtrip", "", f"repr(pkt) = {rp!r} does not read back as the packet stamped "
                            f"{pkt.dtm.isoformat()} ({str(back)[:120]})")
            else:
                ctx.probe("dict_line_roundtrips")
    got = []

    def handler(msg):
        got.append((pkt_key(msg._pkt), msg.dtm.isoformat()))

    if as_dict:
        kw = {"packet_dict": {d: s for d, s in entries}}
    else:
        text = "".join((f"{d} {s}" if d is not None else s) + "\n" for d, s in entries)
        kw = {"packet_log": io.TextIOWrapper(io.BytesIO(text.encode("ascii", "replace")), encoding="ascii")}
    proto, tr = await P.create_stack(handler, **kw)
    err = None
    await asyncio.sleep(0.001)  # connection_made() is call_soon'ed; only then is there a future to wait on
    try:
        err = await proto.wait_for_connection_lost(timeout=60)
    except exc.TransportError as e:
        ctx.violate("C01", "replay_never_ended", "", f"{e}")
    except Exception as e:  # noqa  connection_lost(err) re-raised here
        err = e
    await asyncio.sleep(0.01)
    kind = "dict" if as_dict else "file"
    if err is not None:
        ctx.violate("C01", "stream_cut", f"{kind}:{exc_sig(err)}", f"replay ended with {type(err).__name__}: {err} after "
                    f"{len(got)} of {len(want)} messages")
    if got != want:
        i = next((i for i, (a, b) in enumerate(zip(got, want)) if a != b), min(len(got), len(want)))
        ctx.violate("C01", "continuity", kind, f"{kind} replay delivered {len(got)} messages, expected {len(want)}; first "
                    f"difference at #{i}: got={got[i] if i < len(got) else None} want={want[i] if i < len(want) else None}")
    for e in ctx.loop_excs:
        ctx.violate("C01", "loop_exc", e["sig"], f"{kind} replay: unhandled in the loop: {e['type']}: {e['text']}")
    ctx.ab(f"{kind}:{len(entries)}:{len(want)}")
    for o in plan.ops:
        ctx.ab(o.get("src", o["op"])[:40])
    ctx.nontrivial = len(want) < len(entries)
    ctx.sample = {"scenario": kind, "lines": len(entries), "decodable": len(want), "first": [e[1] for e in entries[:3]]}
    monitor_c02(ctx, [s for d, s in entries if d is not None])


# ---------------------------------------------------------------------------------------
# mqtt
# ---------------------------------------------------------------------------------------

async def run_mqtt(ctx) -> None:
    from ..rf import FakeMqttClient, FakeMqttMessage

    plan = ctx.plan
    lines = lines_of(plan)
    FakeMqttClient.instances.clear()
    T.mqtt.Client = FakeMqttClient
    got = []
    msgs = []
    proto = P.protocol_factory(msgs.append, disable_qos=True)
    orig = proto.pkt_received

    def rec(pkt):
        got.append(pkt_key(pkt))
        orig(pkt)

    proto.pkt_received = rec
    tr = T.MqttTransport("mqtt://user:pw@broker.local:1883", proto, loop=ctx.loop)
    cl = FakeMqttClient.instances[-1]
    topic = "RAMSES/GATEWAY/18:017804"
    cl.on_message(cl, None, FakeMqttMessage(topic, b"online"))
    await proto.wait_for_connection_made(timeout=3)
    want = []
    r = plan.rng("mqtt")
    # the host's time zone: ramses_esp stamps its messages with zone-aware times, which the transport converts to the host's
    # (naive) local time -- a message stamped 'now' must be 'now' here too, whatever the zone (C14: never born old or in the future)
    import os
    import time as _time

    tzname, tzoff = plan.decide("host_tz", lambda rr: rr.choice([["UTC", 0], ["UTC", 0], ["JST-9", 9], ["EST5", -5], ["IST-5:30", 5.5]]), ["UTC", 0])
    os.environ["TZ"] = tzname
    _time.tzset()
    if tzoff:
        ctx.hub.count("host_not_on_utc")
    try:
        await _mqtt_lines(ctx, plan, lines, cl, topic, want, msgs, tzoff)
    finally:
        os.environ["TZ"] = "UTC"
        _time.tzset()
    await _mqtt_end(ctx, plan, lines, want, got, tr)


async def _mqtt_lines(ctx, plan, lines, cl, topic, want, msgs, tzoff) -> None:
    from ..rf import FakeMqttMessage

    for i, s in enumerate(lines):
        ts = dtm_of(i)
        mode = plan.decide(f"mq{i}", lambda rr: rr.choice(["ok"] * 8 + ["tz", "badjson", "z", "now_aware", "now_aware"]), "ok")
        if mode == "tz":
            ts += "+01:00"
        if mode == "z":
            ts += "Z"
        now_local = None
        if mode == "now_aware":  # the gateway's clock agrees with ours: the same instant, written as a UTC-aware time
            await asyncio.sleep(0.001)  # (what was received so far has reached the handler)
            now_local = T.dt.now()
            ts = (now_local - _dt.timedelta(hours=tzoff)).isoformat(timespec="microseconds") + "+00:00"
        n_msgs = len(msgs)
        body = json.dumps({"ts": ts, "msg": s}).encode()
        if mode == "badjson":
            body = body[: max(1, len(body) // 2)]
        else:
            frame = T._normalise(s)
            if frame.strip():
                try:
                    dtm = _dt.datetime.fromisoformat(ts)
                    if dtm.tzinfo is not None:
                        dtm = dtm.astimezone().replace(tzinfo=None)
                    want.append(pkt_key(Packet.from_file(dtm.isoformat(), frame)))
                except REJECT:
                    pass
                except Exception as err:  # noqa
                    ctx.violate("C01", "exc_type", "from_file:" + exc_sig(err), f"{frame!r}: {type(err).__name__}: {err}")
        try:
            cl.on_message(cl, None, FakeMqttMessage(topic + "/rx", body))
        except Exception as err:  # noqa  -- would kill paho's network thread
            ctx.violate("C01", "mqtt_callback_raised", exc_sig(err), f"_on_message raised {type(err).__name__}: {err} for "
                        f"{body[:200]!r}")
        if now_local is not None:
            await asyncio.sleep(0.001)
            for m in msgs[n_msgs:]:
                off = (m.dtm - now_local).total_seconds()
                if abs(off) > 2.0:
                    ctx.violate("C14", "born_old_or_in_the_future", "mqtt", f"a message stamped 'now' ({ts}) by the MQTT gateway is dated "
                                f"{m.dtm.isoformat()} on a host in zone {os.environ.get('TZ')} whose clock reads {now_local.isoformat()}: "
                                f"{off:+.0f} s off, so its lifetime is mis-measured by that much")
                else:
                    ctx.probe("aware_timestamps_dated_now")
        if i % 7 == 0:
            await asyncio.sleep(0.01)


async def _mqtt_end(ctx, plan, lines, want, got, tr) -> None:
    await asyncio.sleep(0.1)
    if got != want:
        i = next((i for i, (a, b) in enumerate(zip(got, want)) if a != b), min(len(got), len(want)))
        ctx.violate("C01", "continuity", "mqtt", f"mqtt delivered {len(got)} packets, expected {len(want)}; first difference at "
                    f"#{i}: got={got[i] if i < len(got) else None} want={want[i] if i < len(want) else None}")
    for e in ctx.loop_excs:
        ctx.violate("C01", "loop_exc", e["sig"], f"mqtt: unhandled in the loop: {e['type']}: {e['text']}")
    tr.close()
    await asyncio.sleep(0.05)
    ctx.ab(f"mqtt:{len(lines)}:{len(want)}")
    for o in plan.ops:
        ctx.ab(o.get("src", "")[:40])
    ctx.nontrivial = len(want) < len(lines)
    ctx.sample = {"scenario": "mqtt", "lines": len(lines), "decodable": len(want), "first_lines": lines[:2]}


# ---------------------------------------------------------------------------------------
# C02 monitor (pure half: monitored on the traffic of every rx run, not enumerated)
# ---------------------------------------------------------------------------------------

_STRUCT = re.compile(r"^(RQ|RP| I| W) (---|\d{3}) ((?:\d{2}:\d{6}|--:------) (?:\d{2}:\d{6}|--:------) (?:\d{2}:\d{6}|--:------)) "
                     r"([0-9A-F]{4}) (\d{3}) ((?:[0-9A-F]{2})+)$")


def monitor_c02(ctx, lines: list[str]) -> None:
    from ramses_tx.command import Command

    n = 0
    for s in lines:
        try:
            pkt = Packet.from_port(_dt.datetime(2024, 1, 10, 12), s)
        except exc.PacketInvalid:  # (C01 judges rejections)
            continue
        except Exception as err:  # noqa
            # ... except that a structurally valid frame whose code the library has no schema for is still a frame: it parses and
            # prints (the message layer, not the frame layer, is what does not know the code)
            m = _STRUCT.match(s[4:]) if len(s) > 50 else None
            if m and len(m.group(6)) == 2 * int(m.group(5)) and m.group(4) not in CODES_SCHEMA:
                ctx.violate("C02", "print_parse", "unparseable_unknown_code:" + type(err).__name__, f"{s!r} is structurally valid (its "
                            f"code {m.group(4)} is merely unknown) but cannot be parsed: {type(err).__name__}: {err}")
            continue
        n += 1
        frame = s.split("#")[0].split("*")[0].split("<")[0].strip()[4:]
        if str(pkt) != frame:
            ctx.violate("C02", "print_parse", "packet", f"str(Packet({s!r})) = {str(pkt)!r} != {frame!r}")
        if len(pkt.payload) // 2 != int(pkt.len_) or pkt._len != int(pkt.len_):
            ctx.violate("C02", "length", "", f"{s!r}: len field {pkt.len_} vs payload {len(pkt.payload) // 2} bytes")
        fields = (pkt.verb, pkt.seqn, pkt.code, pkt.len_, pkt.payload)
        want = (frame[:2], frame[3:6], frame[37:41], frame[42:45], frame[46:])
        if fields != want:
            ctx.violate("C02", "fields", "", f"{s!r}: parsed fields {fields} != text fields {want}")
        # annotation transparency (the documented line format is: packet[ < hint][ * err_msg][ # comment]): whatever follows the
        # '#' is a comment -- it may contain '*' or '<' -- and leaves the packet what it was
        if n % 7 == 0 and not any(c in s for c in "#*<"):
            for note in (" # setpoint: 2*2.5C", " # 5 < 7", " # *", " < a parser hint # and a comment with a * in it"):
                try:
                    p2 = Packet.from_port(_dt.datetime(2024, 1, 10, 12), s + note)
                    if str(p2) != frame:
                        ctx.violate("C02", "print_parse", "annotated", f"{(s + note)!r} printed {str(p2)!r}, expected {frame!r}")
                except Exception as err:  # noqa
                    ctx.violate("C02", "print_parse", "annotated", f"{(s + note)!r} is rejected ({type(err).__name__}: {err}) although "
                                f"{s!r} is a valid packet line")
                    break
        addrs = " ".join(a.id for a in pkt._addrs)
        if addrs != frame[7:36]:
            ctx.violate("C02", "addrs", "", f"{s!r}: address fields {addrs!r} != {frame[7:36]!r}")
        try:
            cmd = Command(frame)
        except exc.CommandInvalid:
            continue
        except Exception as err:  # noqa
            ctx.violate("C02", "command_exc", exc_sig(err), f"Command({frame!r}): {type(err).__name__}: {err}")
            continue
        if str(cmd) != frame:
            ctx.violate("C02", "print_parse", "command", f"str(Command({frame!r})) = {str(cmd)!r}")
        # the attrs constructor and the CLI short form must assemble the very same text
        a0, a1, a2 = frame[7:16], frame[17:26], frame[27:36]
        seqn = frame[3:6]
        try:
            c3 = Command._from_attrs(frame[:2], frame[37:41], frame[46:], addr0=a0, addr1=a1, addr2=a2,
                                     seqn=(int(seqn) if seqn.isdigit() else seqn))
            if str(c3) != frame:
                ctx.violate("C02", "print_parse", "from_attrs", f"_from_attrs(...seqn={seqn!r}) printed {str(c3)!r}, expected {frame!r}")
            cli = f"{frame[:2]} {seqn} {a0} {a1} {a2} {frame[37:41]} {frame[46:]}"
            c4 = Command.from_cli(cli)
            if str(c4) != frame:
                ctx.violate("C02", "print_parse", "from_cli", f"from_cli({cli!r}) printed {str(c4)!r}, expected {frame!r}")
        except exc.CommandInvalid:
            pass
        except Exception as err:  # noqa
            ctx.violate("C02", "command_exc", "from_attrs:" + exc_sig(err), f"{frame!r}: {type(err).__name__}: {err}")
        try:
            cmd2 = Command(str(cmd))
            if str(cmd2) != str(cmd) or cmd2 != cmd and hasattr(cmd, "__eq__") and type(cmd).__eq__ is not object.__eq__:
                ctx.violate("C02", "command_roundtrip", "", f"{frame!r}")
        except Exception as err:  # noqa
            ctx.violate("C02", "command_exc", "reparse:" + exc_sig(err), f"{frame!r}: {err}")
    ctx.probe("c02_monitored_frames", n)


async def run(ctx) -> None:
    sc = ctx.plan.d["scenario"]
    if sc == "serial":
        await run_serial(ctx)
    elif sc == "file":
        await run_file(ctx, as_dict=False)
    elif sc == "dict":
        await run_file(ctx, as_dict=True)
    elif sc == "mqtt":
        await run_mqtt(ctx)
    elif sc == "decode":
        from .rx_decode import run_decode

        await run_decode(ctx)
    elif sc == "logrt":
        from .rx_decode import run_logrt

        await run_logrt(ctx)
    gc.collect()


def on_hang(ctx, where: str, pending: list[str]) -> None:
    ctx.violate("C01", "hang", where, f"receive path stopped: event loop ran dry at {where}; pending={pending}")


def on_wedge(ctx, desc: str) -> None:
    ctx.violate("C01", "wedged", desc.split("(")[0], desc)
