"""Plans: one integer decides everything.

A plan is JSON: {v, engine, scenario, property, seed, run, knobs{}, ops[], decisions{}, materialised}.
* exploration mode: a decision missing from the plan is drawn from Random(sha256(seed,key))
  and recorded -> the plan materialises as it runs;
* replay mode (`materialised: true`): a missing decision takes its benign default, so a
  replay file is a pure function of itself and the code -- no PRNG is consulted.
Decision keys are stable names (e.g. `op3/tx2/echo`), so removing other steps while
shrinking does not change them.
"""
from __future__ import annotations

import hashlib
import json
import random
from typing import Any, Callable


def _h(*parts) -> int:
    s = "|".join(str(p) for p in parts).encode()
    return int.from_bytes(hashlib.sha256(s).digest()[:8], "big")


class Plan:
    def __init__(self, d: dict) -> None:
        self.d = d
        d.setdefault("v", 1)
        d.setdefault("knobs", {})
        d.setdefault("ops", [])
        d.setdefault("decisions", {})
        d.setdefault("materialised", False)
        self.decisions: dict[str, Any] = d["decisions"]
        self.materialised: bool = d["materialised"]
        self.seed = d.get("seed", 0)
        self.run = d.get("run", 0)
        self.used: set[str] = set()

    @classmethod
    def new(cls, engine: str, scenario: str, prop: str, seed: int, run: int) -> "Plan":
        return cls({"v": 1, "engine": engine, "scenario": scenario, "property": prop,
                    "seed": seed, "run": run, "knobs": {}, "ops": [], "decisions": {},
                    "materialised": False})

    # -- randomness ----------------------------------------------------------------
    def rng(self, key: str) -> random.Random:
        return random.Random(_h(self.seed, self.d.get("engine"), self.d.get("scenario"), self.run, key))

    def decide(self, key: str, gen: Callable[[random.Random], Any], default: Any) -> Any:
        self.used.add(key)
        if key in self.decisions:
            return self.decisions[key]
        if self.materialised:
            return default
        v = gen(self.rng(key))
        if v != default:
            self.decisions[key] = v
        return v

    def knob(self, name: str, default: Any = None) -> Any:
        return self.d["knobs"].get(name, default)

    @property
    def ops(self) -> list:
        return self.d["ops"]

    # -- (de)serialisation ----------------------------------------------------------
    def freeze(self) -> dict:
        """The materialised plan (for replay)."""
        out = json.loads(json.dumps(self.d))
        out["materialised"] = True
        return out

    def digest(self) -> str:
        return hashlib.sha256(json.dumps(self.d, sort_keys=True).encode()).hexdigest()[:12]
