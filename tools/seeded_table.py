#!/venv/bin/python
"""tools/seeded_table.py: (re)write the seeded-change table of DESIGN.md section 16 from seeded/RESULTS.json."""
import json, os, re
V = os.path.dirname(os.path.dirname(os.path.abspath(__file__)))
res = json.load(open(f"{V}/seeded/RESULTS.json"))
# changes whose declared property the owning check does not see, but which the check of the property they actually break does
# (verified with tools/mutant_test.sh <patch> <that property>)
CROSS = {"C02-r4-frame-read-valueerror-dropped": "C01 (continuity:file/dict, stream_cut)", "C13-r5-disc-catches-sendfailed-only": "C12 (incomplete:*)",
         "C16-dict-reader-yields-once": "the thorough tier of C16 (packets_lost:000A, about 4 min; earlier sweep)"}
rows = ["| seeded change | property | verdict (tier) | signatures that fired |", "|---|---|---|---|"]
for n in sorted(d for d in os.listdir(f"{V}/seeded") if os.path.exists(f"{V}/seeded/{d}/patch.diff")):
    r = res.get(n)
    if r is None:
        rows.append(f"| {n} | {n[:3]} | not yet swept | |")
        continue
    sigs = ", ".join(f"`{s.split('/', 1)[1]}`" for s in r["signatures"][:3]) + (" ..." if len(r["signatures"]) > 3 else "")
    extra = f"; caught by {CROSS[n]}" if n in CROSS and r["verdict"] != "CAUGHT" else ""
    rows.append(f"| {n} | {r['property']} | {r['verdict']} ({r['tier']}){extra} | {sigs} |")
names = [d for d in os.listdir(f"{V}/seeded") if os.path.exists(f"{V}/seeded/{d}/patch.diff") and d in res]
n_c = sum(1 for d in names if res[d]["verdict"] == "CAUGHT")
table = "\n".join(rows) + f"\n\n{n_c} of {len(names)} swept changes are caught by the quick tier of the owning check.\n"
p = f"{V}/DESIGN.md"
s = open(p).read()
if "SEEDED-TABLE" in s:
    s = s.replace("SEEDED-TABLE", "<!-- seeded-table -->\n" + table + "<!-- /seeded-table -->")
else:
    s = re.sub(r"<!-- seeded-table -->.*?<!-- /seeded-table -->", "<!-- seeded-table -->\n" + table + "<!-- /seeded-table -->", s, flags=re.S)
open(p, "w").write(s)
print(f"{n_c}/{len(names)} caught")
