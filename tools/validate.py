#!/opt/veriftools/pyvenv/bin/python
"""tools/validate.py: MANIFEST.json and every evidence/<id>.json against the harness's schemas (python3-vt has jsonschema)."""
import glob, json, sys
import jsonschema
bad = 0
m = json.load(open("/verif/MANIFEST.json"))
jsonschema.validate(m, json.load(open("/root/.vp/MANIFEST.schema.json")))
sch = json.load(open("/root/.vp/EVIDENCE.schema.json"))
ids = {c["property_id"] for c in m["checks"]}
for i in sorted(ids):
    try:
        jsonschema.validate(json.load(open(f"/verif/evidence/{i}.json")), sch)
    except Exception as err:  # noqa
        bad += 1
        print("EVIDENCE", i, str(err)[:300])
props = {json.loads(l)["id"] for l in open("/verif/properties.jsonl")}
na = {x["property_id"] for x in m["not_applicable"]}
print("manifest ok; checks", len(ids), "n/a", sorted(na), "unaccounted", sorted(props - ids - na), "bad evidence", bad)
sys.exit(1 if bad or (props - ids - na) else 0)
