#!/bin/sh
# tools/mutant_test.sh <patch.diff> <prop> [prop...]  -- apply to /repo, run quick checks, always undo.
# prints one line per property: CAUGHT / MISSED / HARNESS
P="$1"; shift
cd /repo || exit 2
if [ -n "$(git status --porcelain)" ]; then echo "repo not clean"; exit 2; fi
git apply "$P" || { echo "patch does not apply"; exit 2; }
trap 'git -C /repo checkout -- . ; git -C /repo clean -fdq src' EXIT
cd /verif
for prop in "$@"; do
  out=$(timeout 1200 ./check "$prop" --tier "${TIER:-quick}" 2>&1); rc=$?
  sigs=$(echo "$out" | grep -o "signature=[^ ]*" | sort -u | tr '\n' ' ')
  case $rc in
    0) echo "MISSED  $prop ($(echo "$out" | tail -1 | cut -c1-160))";;
    1) echo "CAUGHT  $prop $sigs";;
    *) echo "HARNESS $prop rc=$rc $(echo "$out" | grep HARNESS | head -2 | cut -c1-300)";;
  esac
done
