#!/bin/sh
# tools/mutant_test.sh <patch.diff> <prop> [prop...]
# Applies the patch to a scratch worktree of /repo (never to /repo itself), points the checks at it through
# SIMRF_REPO_SRC, runs the quick (or $TIER) checks and removes the worktree.  One line per property:
# CAUGHT / MISSED / HARNESS
P="$(readlink -f "$1")"; shift
WT=/tmp/mt.$$
git -C /repo worktree add -q --detach $WT HEAD || exit 2
trap 'git -C /repo worktree remove --force $WT; git -C /repo worktree prune' EXIT
git -C $WT apply --3way "$P" >/dev/null 2>&1 || git -C $WT apply "$P" || { echo "patch does not apply"; exit 2; }
cd /verif
for prop in "$@"; do
  out=$(SIMRF_REPO_SRC=$WT/src SIMRF_NO_EVIDENCE=1 timeout 1200 ./check "$prop" --tier "${TIER:-quick}" 2>&1); rc=$?
  sigs=$(echo "$out" | grep -o "signature=[^ ]*" | sort -u | tr '\n' ' ')
  case $rc in
    0) echo "MISSED  $prop ($(echo "$out" | tail -1 | cut -c1-160))";;
    1) echo "CAUGHT  $prop $sigs";;
    *) echo "HARNESS $prop rc=$rc $(echo "$out" | grep HARNESS | head -2 | cut -c1-300)";;
  esac
done
