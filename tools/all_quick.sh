#!/bin/sh
# tools/all_quick.sh [tier]: every claimed check, one line each
cd /verif
for p in $(python3 -c "import json;print(' '.join(c['property_id'] for c in json.load(open('MANIFEST.json'))['checks']))"); do
  out=$(./check $p --tier ${1:-quick} 2>&1); rc=$?
  echo "$p rc=$rc $(echo "$out" | grep -c '^KNOWN-FINDING') known | $(echo "$out" | tail -1 | cut -c1-220)"
  [ $rc -ne 0 ] && echo "$out" | grep -A3 "VIOLATION\|HARNESS" | head -20
done
