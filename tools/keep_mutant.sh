#!/bin/sh
# tools/keep_mutant.sh <PROP> <n> <name>: verify agent output /tmp/mut/<PROP>.out/m<n>.* in worktree /tmp/mut/<PROP>
# (baseline passes with diff, demo fails with diff, demo passes without) and store under /verif/seeded/<name>/
R=${MUTROOT:-/tmp/mut}; PROP=$1; N=$2; NAME=$3; WT=$R/$PROP; OUT=${OUTDIR:-$R/$PROP.out}
cd $WT || exit 2
git checkout -q -- . ; git apply $OUT/m$N.diff || { echo "APPLY-FAIL"; exit 1; }
BL=1; for try in 1 2 3; do /tmp/mut/baseline.py $WT > $R/bl.$$ 2>&1; BL=$?; [ $BL -eq 0 ] && break; done  # ptys tests flake under load
PYTHONPATH=$WT/src timeout 120 /venv/bin/python $OUT/demo_m$N.py > $R/d1.$$ 2>&1; D1=$?
git checkout -q -- .
PYTHONPATH=$WT/src timeout 120 /venv/bin/python $OUT/demo_m$N.py > $R/d0.$$ 2>&1; D0=$?
echo "baseline_with_diff=$BL demo_with_diff=$D1 demo_without=$D0"
if [ $BL -eq 0 ] && [ $D1 -ne 0 ] && [ $D0 -eq 0 ]; then
  mkdir -p /verif/seeded/$NAME
  cp $OUT/m$N.diff /verif/seeded/$NAME/patch.diff
  cp $OUT/demo_m$N.py /verif/seeded/$NAME/demo.py
  /venv/bin/python - <<PY
import json
m=json.load(open("$OUT/meta_m$N.json"))
m["verified"]={"baseline_with_patch":"tools/baseline.py: stable_missing=0","demo_with_patch_exit":$D1,"demo_without_patch_exit":$D0,
 "how":"applied in a scratch worktree of /repo (HEAD incl. fix: commits); ran /tmp/mut/baseline.py and the demo with and without the patch"}
m["demo_output_with_patch"]=open("$R/d1.$$").read()[-600:]
json.dump(m,open("/verif/seeded/$NAME/meta.json","w"),indent=1)
PY
  echo "KEPT /verif/seeded/$NAME"
else
  echo "REJECTED"; tail -n 3 $R/bl.$$; tail -n 3 $R/d1.$$; tail -n 3 $R/d0.$$
fi
rm -f $R/*.$$
