#!/venv/bin/python
"""dev helper: tools/one.py <engine> <scenario> <prop> <run> [seed] -- run one plan, dump events."""
import sys, os, json
sys.path.insert(0, os.path.dirname(os.path.dirname(os.path.abspath(__file__))))
from simrf.plan import Plan
from simrf import runner
eng, sc, prop, i = sys.argv[1], sys.argv[2], sys.argv[3], int(sys.argv[4])
seed = int(sys.argv[5]) if len(sys.argv) > 5 else 0
pd = Plan.new(eng, sc, prop, seed, i).d
r = runner.execute(pd)
print(json.dumps(r["plan"]["knobs"]))
for o in r["plan"]["ops"]: print("  OP", json.dumps(o))
print("decisions", json.dumps(r["plan"]["decisions"]))
for e in r["events_tail"]: print("  EV", e)
for v in r["violations"]: print("VIOL", v["sig"], "|", v["text"][:500])
print("herr", r["harness_error"])
