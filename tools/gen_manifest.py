#!/venv/bin/python
"""Regenerate /verif/MANIFEST.json from simrf.registry (single source of truth)."""
import json, os, sys
sys.path.insert(0, os.path.dirname(os.path.dirname(os.path.abspath(__file__))))
from simrf.registry import CHECKS, MANIFEST_TEXT, NOT_APPLICABLE

checks = []
for pid in sorted(CHECKS):
    c = CHECKS[pid]
    m = MANIFEST_TEXT[pid]
    checks.append({
        "property_id": pid,
        "quick_cmd": f"./check {pid} --tier quick",
        "thorough_cmd": f"./check {pid} --tier thorough",
        "evidence_file": f"/verif/evidence/{pid}.json",
        "replay_cmd_template": f"./check {pid} --replay {{path}}",
        "engine": "+".join(sorted({e for (e, _s, _q, _t) in c["specs"]})),
        "level_claimed": {"category": "exploration", "text": m["text"], "design_ref": m["design_ref"]},
        "level_note": m["note"],
        "technique": m["technique"],
    })
engines = {}
for pid, c in CHECKS.items():
    for (e, s, _q, _t) in c["specs"]:
        engines.setdefault(e, set()).add(pid)
man = {
    "version": 1,
    "setup_cmd": "./check --setup",
    "hooks": {"guard": "RAMSES_RF_VERIF", "enable": "none needed: every seam is an existing module attribute patched from /verif (simrf/world.py, simrf/clock.py)",
              "baseline_off_cmd": "cd /repo && /venv/bin/python -m pytest -ra -q -p no:cacheprovider --timeout=900 --continue-on-collection-errors",
              "source_commits": [], "add_only": True},
    "engines": [{"name": e, "path": f"simrf/engines/{e}.py", "serves_properties": sorted(p),
                 "kind_free_text": "deterministic simulation: virtual-time asyncio loop + seeded fault/schedule plans"} for e, p in sorted(engines.items())],
    "checks": checks,
    "not_applicable": [{"property_id": k, "reason": v} for k, v in sorted(NOT_APPLICABLE.items()) if k not in CHECKS],
    "notes": "All checks: ./check <id> --tier quick|thorough; exit 0 held / 1 VIOLATION (replayable) / 3 HARNESS-ERROR. See DESIGN.md.",
}
json.dump(man, open(os.path.join(os.path.dirname(os.path.dirname(os.path.abspath(__file__))), "MANIFEST.json"), "w"), indent=1)
print("checks:", [c["property_id"] for c in checks], "n/a:", [x["property_id"] for x in man["not_applicable"]])
