#!/venv/bin/python
"""tools/mutant_sweep.py [name-prefix ...]: run every kept seeded change (seeded/<id>/patch.diff) against the check of the
property it breaks, in a scratch worktree of /repo (never /repo itself), and record the outcome in seeded/<id>/meta.json
("detected_by") and seeded/RESULTS.json.  Sequential: each check already uses all cores."""
import json, os, subprocess, sys, time
V = os.path.dirname(os.path.dirname(os.path.abspath(__file__)))
sel = sys.argv[1:]
names = sorted(d for d in os.listdir(f"{V}/seeded") if os.path.exists(f"{V}/seeded/{d}/patch.diff"))
if sel:
    names = [n for n in names if any(n.startswith(s) for s in sel)]
res_path = os.environ.get("SWEEP_OUT") or f"{V}/seeded/RESULTS.json"  # SWEEP_OUT: robustness sweeps at other seeds (meta.json untouched)
results = json.load(open(res_path)) if os.path.exists(res_path) else {}
head = subprocess.check_output(["git", "-C", "/repo", "log", "--format=%h", "-1"], text=True).strip()
for n in names:
    meta = json.load(open(f"{V}/seeded/{n}/meta.json"))
    prop = meta["property"]
    t0 = time.time()
    out = subprocess.run([f"{V}/tools/mutant_test.sh", f"{V}/seeded/{n}/patch.diff", prop], stdout=subprocess.PIPE,
                         stderr=subprocess.STDOUT, text=True).stdout.strip()
    line = out.splitlines()[-1] if out else "NO OUTPUT"
    verdict = line.split()[0]
    sigs = [w.split("=", 1)[1] for w in line.split() if w.startswith("signature=")]
    results[n] = {"property": prop, "verdict": verdict, "signatures": sigs, "tier": os.environ.get("TIER", "quick"), "seed": int(os.environ.get("VERIF_SEED", "0")),
                  "repo_head": head, "wall_s": round(time.time() - t0)}
    meta["detected_by"] = {"check": f"./check {prop} --tier {os.environ.get('TIER', 'quick')}", "verdict": verdict, "signatures": sigs,
                           "repo_head": head}
    if not os.environ.get("SWEEP_OUT"):
        json.dump(meta, open(f"{V}/seeded/{n}/meta.json", "w"), indent=1)
    json.dump(results, open(res_path, "w"), indent=1, sort_keys=True)
    print(f"{verdict:8s} {n}  {' '.join(sigs)[:200]}  ({results[n]['wall_s']} s)", flush=True)
