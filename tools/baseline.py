#!/venv/bin/python
"""Run the repository's pinned test-suite in a tree and compare with /root/.vp/BASELINE.json.

usage: tools/baseline.py [repo_dir] [--src-only]
exit 0 iff every stable_pass test passed.  Used to validate hook/fix commits and
candidate mutants ("still passes the existing tests").
"""
import json, os, subprocess, sys, tempfile
import xml.etree.ElementTree as ET

def main() -> int:
    repo = sys.argv[1] if len(sys.argv) > 1 and not sys.argv[1].startswith("-") else "/repo"
    base = json.load(open("/root/.vp/BASELINE.json"))
    stable = set(base["stable_pass"])
    with tempfile.TemporaryDirectory() as td:
        xml = os.path.join(td, "j.xml")
        env = dict(os.environ)
        # make sure the tree under test is the one imported (worktrees of /repo)
        env["PYTHONPATH"] = os.path.join(repo, "src") + os.pathsep + repo
        env.pop("RAMSES_RF_VERIF", None)
        p = subprocess.run(
            ["/venv/bin/python", "-m", "pytest", "-q", "-p", "no:cacheprovider", "--timeout=900",
             "--continue-on-collection-errors", f"--junitxml={xml}"],
            cwd=repo, env=env, stdout=subprocess.PIPE, stderr=subprocess.STDOUT, text=True)
        try:
            root = ET.parse(xml).getroot()
        except Exception as e:  # noqa
            print(p.stdout[-3000:]); print("no junit:", e); return 2
    passed = set()
    for tc in root.iter("testcase"):
        tid = f"{tc.get('classname')}::{tc.get('name')}"
        if not any(ch.tag in ("failure", "error", "skipped") for ch in tc):
            passed.add(tid)
    missing = sorted(stable - passed)
    print(f"stable_pass={len(stable)} passed_now={len(passed)} stable_missing={len(missing)}")
    for m in missing[:40]:
        print("  MISSING", m)
    return 0 if not missing else 1

if __name__ == "__main__":
    sys.exit(main())
