#!/venv/bin/python
"""dev helper: tools/try.py <engine> <scenario> <prop> <n> [seed] -- run n plans in-process, summarise."""
import sys, os, collections, json, time
sys.path.insert(0, os.path.dirname(os.path.dirname(os.path.abspath(__file__))))
os.environ.setdefault("PYTHONHASHSEED", "0")
from simrf import clock
from simrf.plan import Plan
from simrf import runner
eng, sc, prop, n = sys.argv[1], sys.argv[2], sys.argv[3], int(sys.argv[4])
seed = int(sys.argv[5]) if len(sys.argv) > 5 else 0
tot = collections.Counter(); first = {}; herr = []
faults = collections.Counter(); probes = collections.Counter()
w = clock.REAL_TIME(); sim = 0
for i in range(n):
    pd = Plan.new(eng, sc, prop, seed, i).d
    r = runner.execute(pd)
    sim += r["sim_s"]
    for v in r["violations"]:
        tot[v["sig"]] += 1; first.setdefault(v["sig"], (i, v["text"]))
    if r["harness_error"]: herr.append((i, r["harness_error"]))
    faults.update(r["faults"]); probes.update(r["probes"])
print("runs", n, "wall", round(clock.REAL_TIME() - w, 2), "sim_s", round(sim))
for k, c in tot.most_common(): print(c, k, "| run", first[k][0], "|", first[k][1][:300])
print("faults", dict(faults)); print("probes", dict(probes))
for h in herr[:3]: print("HARNESS", h[0], h[1][-1500:])
print("harness errors:", len(herr))
