#!/venv/bin/python
"""dev helper: tools/feed.py <scenario> <prop> [knob=value ...] < ops.json  -- run a hand-written materialised plan on
engine `state` (ops as a JSON list; a bare string is an rx op)."""
import sys, os, json
sys.path.insert(0, os.path.dirname(os.path.dirname(os.path.abspath(__file__))))
from simrf import runner
sc, prop = sys.argv[1], sys.argv[2]
knobs = {"drift": 0.0, "min_gap": 0.25, "eavesdrop": False, "max_zones": 12}
for a in sys.argv[3:]:
    k, v = a.split("=", 1)
    knobs[k] = json.loads(v)
ops = [({"op": "rx", "f": o} if isinstance(o, str) else o) for o in json.load(sys.stdin)]
pd = {"v": 1, "engine": "state", "scenario": sc, "property": prop, "seed": 0, "run": 0, "knobs": knobs, "ops": ops,
      "decisions": {}, "materialised": True, "generated": True}
r = runner.execute(pd)
for e in r["events_tail"]: print("  EV", e)
for v in r["violations"]: print("VIOL", v["sig"], "|", v["text"][:700])
print("probes", r["probes"]); print("herr", r["harness_error"])
