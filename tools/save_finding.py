#!/venv/bin/python
"""tools/save_finding.py <engine> <scenario> <prop> <run> <sig> <out.json> [seed]: run, shrink, save a replay file."""
import sys, os, json, shutil
sys.path.insert(0, os.path.dirname(os.path.dirname(os.path.abspath(__file__))))
from simrf.plan import Plan
from simrf import runner
eng, sc, prop, i, sig, out = sys.argv[1], sys.argv[2], sys.argv[3], int(sys.argv[4]), sys.argv[5], sys.argv[6]
seed = int(sys.argv[7]) if len(sys.argv) > 7 else 0
r = runner.execute(Plan.new(eng, sc, prop, seed, i).d)
assert runner.has_sig(r, sig), [v["sig"] for v in r["violations"]]
small, n = runner.shrink(r["plan"], sig)
r2 = runner.replay(small)
assert runner.has_sig(r2, sig)
text = next(v["text"] for v in r2["violations"] if v["sig"] == sig)
p = runner.write_replay(prop, sig, small, r2, text)
shutil.move(p, out)
print("saved", out, "ops", len(small["ops"]), "decisions", len(small["decisions"]), "shrink execs", n)
