#!/bin/sh
# tools/soak_quick.sh <seed> [<seed>...]: every claimed check at the quick tier for each seed; prints only what is not clean
for sd in "$@"; do
  for p in $(python3 -c "import json;print(' '.join(c['property_id'] for c in json.load(open('MANIFEST.json'))['checks']))"); do
    out=$(VERIF_SEED=$sd SIMRF_NO_EVIDENCE=1 ./check $p --tier quick 2>&1); rc=$?
    echo "seed=$sd $p rc=$rc $(echo "$out" | tail -1 | cut -c1-160)"
    [ $rc -ne 0 ] && echo "$out" | grep -v "^KNOWN" | grep -A3 "VIOLATION\|HARNESS" | cut -c1-700
  done
done
