#!/bin/sh
# tools/keep_round.sh PROP name1 name2 name3 ...: keep_mutant.sh for m1..mN of /tmp/mut/PROP.out, then sweep the kept ones
PROP=$1; shift; n=1; kept=""
for name in "$@"; do
  if [ "$name" != "-" ]; then
    /verif/tools/keep_mutant.sh $PROP $n $name | tail -4
    [ -d /verif/seeded/$name ] && kept="$kept $name"
  fi
  n=$((n+1))
done
[ -n "$kept" ] && /verif/tools/mutant_sweep.py $kept
